#!/venv/bin/python
"""Dispatcher:  run_check.py <ID> [--tier quick|thorough]   |   run_check.py --replay <file>

exit 0  the property held on everything explored (known findings are listed)
exit 1  at least one `VIOLATION property=<id> replay=<path>` line was printed
exit 2  harness error (never a VIOLATION)
"""

import argparse
import importlib
import json
import os
import sys
import time
import traceback

VERIF = os.path.dirname(os.path.abspath(__file__))
if VERIF not in sys.path:
    sys.path.insert(0, VERIF)

from mc import boot  # noqa: E402

MAX_LINES = 25


def _load(prop):
    return importlib.import_module("checks." + prop.lower())


def do_replay(path):
    from mc import report

    with open(path) as f:
        body = json.load(f)
    prop = body["property"]
    mod = _load(prop)
    boot.boot(controlled=getattr(mod, "CONTROLLED", True))
    v = report.Violation.from_dict(body)
    again = mod.replay(v)
    if again:
        for a in again:
            print("REPLAY-FAILS property={} sub={} what={}".format(prop, a.sub, a.what))
            print("  case     = {}".format(json.dumps(a.case)[:2000]))
            print("  observed = {}".format(json.dumps(a.observed)[:2000]))
            print("  expected = {}".format(json.dumps(a.expected)[:2000]))
        print("VIOLATION property={} replay={}".format(prop, path))
        return 1
    print("REPLAY-PASSES property={} replay={}".format(prop, path))
    return 0


def do_check(prop, tier, seed):
    from mc import report, pool

    t0 = time.time()
    mod = _load(prop)
    boot.boot(controlled=getattr(mod, "CONTROLLED", True))
    result = mod.run(tier, seed)
    known = report.load_known()
    printed = 0
    n_new = 0
    known_hits = {}
    seen_keys = {}
    unconfirmed = []
    tries = {}
    # simplest case first within each root-cause group: the smallest case is the most likely
    # to be self-contained (to fail again on replay) and the easiest to read
    order = sorted(range(len(result.violations)),
                   key=lambda i: (json.dumps(result.violations[i].key), getattr(result.violations[i], "priority", 1),
                                  len(json.dumps(result.violations[i].case)), i))
    for v in [result.violations[i] for i in order]:
        f = report.open_finding(prop, v.key, known)
        if f is not None:
            k = json.dumps(f.get("key"))
            if k not in known_hits:
                known_hits[k] = {"what": f.get("what", ""), "count": 0, "example": v.case}
            known_hits[k]["count"] += 1
            continue
        n_new += 1
        k = json.dumps(v.key)
        seen_keys[k] = seen_keys.get(k, 0) + 1
        if seen_keys[k] > 3 or printed >= MAX_LINES or tries.get(k, 0) >= 12:
            continue
        tries[k] = tries.get(k, 0) + 1
        # confirm from the replay file in a re-created state before reporting; a case that
        # does not fail again (it depended on what the worker had done before) is never
        # printed as a VIOLATION
        path = report.write_replay(prop, tier, v)
        again = mod.replay(v)
        if not again:
            unconfirmed.append((path, v.what))
            seen_keys[k] -= 1
            n_new -= 1
            try:
                os.remove(path)
            except OSError:
                pass
            continue
        print("  [{}] {}  key={}".format(v.sub, v.what, k))
        print("VIOLATION property={} replay={}".format(prop, path))
        printed += 1
    for k, h in known_hits.items():
        print(
            "KNOWN-FINDING: property={} {} (key={}, {} case(s) this run)".format(
                prop, h["what"], k, h["count"]
            )
        )
    wall = time.time() - t0
    path = report.write_evidence(
        prop, tier, seed, result, wall, n_new, list(known_hits.values())
    )
    pool.close_pool()
    cov = result.coverage
    summary = {
        k: cov[k]
        for k in (
            "evaluations",
            "distinct_nontrivial",
            "states",
            "transitions",
            "executions",
            "traces_validated_against_impl",
            "distinct_outcomes",
        )
        if k in cov
    }
    print(
        "{} tier={} seed={} {} violations={} known={} wall={:.1f}s evidence={}".format(
            prop, tier, seed, summary, n_new, len(known_hits), wall, path
        )
    )
    if n_new:
        print("{} violating case(s) in {} root-cause group(s)".format(
            n_new, len([k for k, c in seen_keys.items() if c > 0])))
    for path, what in unconfirmed[:5]:
        print("UNCONFIRMED (did not fail again on replay, not reported): {}".format(what[:300]))
    if unconfirmed and not printed:
        raise boot.HarnessError(
            "{} case(s) failed during the exploration but none failed again on replay - "
            "the behaviour depends on state the replay case does not carry".format(len(unconfirmed)))
    return 1 if printed else 0


def main():
    boot.ensure_env()
    ap = argparse.ArgumentParser()
    ap.add_argument("prop", nargs="?")
    ap.add_argument("--tier", default=os.environ.get("VERIF_TIER", "quick"))
    ap.add_argument("--replay")
    a = ap.parse_args()
    seed = int(os.environ.get("VERIF_SEED", "0") or 0)
    try:
        if a.replay:
            return do_replay(a.replay)
        if not a.prop:
            ap.error("property id required")
        if a.tier not in ("quick", "thorough"):
            ap.error("tier must be quick or thorough")
        return do_check(a.prop.upper(), a.tier, seed)
    except boot.HarnessError as e:
        print("HARNESS-ERROR {}".format(e))
        traceback.print_exc()
        return 2
    except Exception as e:
        print("HARNESS-ERROR unexpected {}: {}".format(type(e).__name__, e))
        traceback.print_exc()
        return 2
    finally:
        try:
            from mc import pool

            pool.close_pool()
        except Exception:
            pass


if __name__ == "__main__":
    sys.exit(main())
