"""C10 — MCS search reports genuine, correctly attributed, largest common substructures.

(i)  selection step: every result table of 3 search conditions x 1..2 reactions over 9
     entry shapes through ExtractMCS.get_largest_condition, against "argmax of total
     matched atoms" as reference.
(ii) attribution: MCSSearch.find is observed inside real Balancer.rebalance runs (a spy
     captures the rows entering the stage and the records it attaches, then stops the
     run) for every ordered sub-batch of size <= 3 of 10 MCS-bound reactions interleaved
     with already-solved rows, and under every single task-order deviation at the
     Parallel calls of the stage.  Thorough: the complete validation corpus.
"""

import copy
import itertools
import json

from rdkit import Chem

from mc import explore, oracle, pipeline
from mc.pool import pmap
from mc.report import Result, Violation

PROPERTY = "C10"

# ------------------------------------------------------------------ (i) selection tables

SHAPES = [
    ("none", [], 0), ("empty-pattern", [""], 0), ("one", ["CC"], 2), ("two", ["CC", "O"], 3),
    ("lead-empty", ["", "CC"], 2), ("trail-empty", ["CC", ""], 2), ("failed", [], 0),
    ("big", ["CCC"], 3), ("small-first", ["C", "CC"], 3),
    ("duplicate", ["CC", "CC"], 4),      # two molecules with the identical pattern string
    ("deuterated", ["[2H]C([2H])[2H]"], 4),   # hydrogens that are graph atoms of the pattern
]


def make_entry(rid, shape_idx):
    name, pats, _ = SHAPES[shape_idx]
    e = {"id": rid, "mcs_results": list(pats), "sorted_reactants": ["CCO"] * len(pats), "issue": ""}
    if name == "failed":
        e["issue"] = "MCS search terminated by timeout."
    return e


def judge_table(table):
    """table: tuple over conditions of tuple over reactions of shape indices"""
    from synrbl.SynMCSImputer.SubStructure.extract_common_mcs import ExtractMCS

    n_rx = len(table[0])
    conds = [[make_entry(r, table[c][r]) for r in range(n_rx)] for c in range(len(table))]
    result = ExtractMCS.get_largest_condition(*conds)
    bad = None
    dropped = 0
    last_idx = -1
    seen_idx = set()
    for e in result:
        where = [(c, r) for c in range(len(conds)) for r in range(n_rx) if conds[c][r] is e]
        if not where:
            return ("not-an-input-entry", "a returned entry is not one of the input entries"), 0
        c, r = where[0]
        if e.get("id") != r:
            return ("wrong-id", "returned entry id {} sits at reaction {}".format(e.get("id"), r)), 0
        if r in seen_idx or r < last_idx:
            return ("order-or-duplicate", "entries returned out of order or twice"), 0
        seen_idx.add(r)
        last_idx = r
        totals = [SHAPES[table[cc][r]][2] for cc in range(len(conds))]
        if totals[c] != max(totals):
            return ("not-largest", "reaction {}: condition {} with {} atoms retained, totals are {}".format(r, c, totals[c], totals)), 0
    for r in range(n_rx):
        totals = [SHAPES[table[cc][r]][2] for cc in range(len(conds))]
        if r not in seen_idx and max(totals) > 0:
            dropped += 1
    return bad, dropped


def tables_job(job):
    """worker: all tables with the given first-condition row fixed"""
    n_rx, shapes, first = job["n_rx"], job["shapes"], tuple(job["first"])
    rows = list(itertools.product(shapes, repeat=n_rx))
    n = dropped = 0
    bad = []
    for c2 in rows:
        for c3 in rows:
            t = (first, c2, c3)
            n += 1
            b, d = judge_table(t)
            dropped += d
            if b:
                bad.append({"key": ["selection", b[0]], "what": "table {}: {}".format(t, b[1]), "table": [list(x) for x in t]})
    return {"n": n, "bad": bad[:50], "nbad": len(bad), "dropped": dropped}


# ------------------------------------------------------------------ (ii) attribution

MCS_BOUND = [
    "CC(=O)OCC>>CC(=O)O",
    "CC(=O)OCC.CCC>>CC(=O)O.CCC",
    "CCOC(=O)CC(=O)OCC>>OC(=O)CC(=O)O",
    "CC(C)(C)OC(=O)NCc1ccccc1>>NCc1ccccc1",
    "CCN(CC)CC.CC(=O)Cl.OCc1ccccc1>>CC(=O)OCc1ccccc1",
    "CC(=O)OCC.[Na+].[OH-]>>CC(=O)[O-].[Na+]",
    "CC>>CCC",
    "CC(=O)OC.CC(=O)OCC>>CC(=O)O.CO",
    "CCBr>>N",                                   # no common substructure under any condition
    "OC(=O)c1ccccc1.C1CCOC1>>O=C(OCCC)c1ccccc1",  # the three conditions disagree on the total
]
SOLVED = ["CC(=O)O.CCO>>CC(=O)OCC.O", "CCO>>CC=O"]
STAGE_FILES = ("mcs_process.py", "find_graph_dict.py", "extract_common_mcs.py")


class _Stop(BaseException):
    pass


def observe_find(rxns):
    """Run the real pipeline up to and including MCSSearch.find; return what went in and
    what came out."""
    b = pipeline.balancer()
    b.confidence_threshold = 0
    cap = {}
    real = b.mcs_search.find

    def spy(reactions):
        cap["in"] = [{k: r.get(k) for k in ("id", "reactants", "products", "carbon_balance_check", "solved")} for r in reactions]
        out = real(reactions)
        cap["out"] = [{"id": r.get("id"), "mcs": copy.deepcopy(r.get("mcs")), "issue": r.get("issue"), "solved": r.get("solved")}
                      for r in reactions]
        raise _Stop()

    b.mcs_search.find = spy
    try:
        b.rebalance(list(rxns), output_dict=True)
    except _Stop:
        pass
    finally:
        del b.mcs_search.find
    return cap


def judge_records(rxns, cap, alone_cmp=True):
    bad = []
    if "in" not in cap or "out" not in cap or len(cap["in"]) != len(rxns):
        return [(["attribution", "stage-not-observed"], "MCS stage not reached / row count {} for {}".format(len(cap.get("in", [])), rxns))], 0
    n_clean = 0
    for i, (rin, rout) in enumerate(zip(cap["in"], cap["out"])):
        rec = rout["mcs"]
        if rin["solved"]:
            if rec is not None and "mcs" in rout and rout["mcs"] is not None:
                bad.append((["attribution", "solved-row-searched"], "row {} of {} was already solved but has an MCS record".format(i, rxns)))
            continue
        if rec is None:
            continue
        if rec.get("id") != rin["id"]:
            bad.append((["attribution", "record-id"], "row {} (id {}) of {} carries the record of id {}".format(i, rin["id"], rxns, rec.get("id"))))
        if rec.get("issue", "") != "":
            continue
        side = rin["reactants"] if rin["carbon_balance_check"] in ("products", "balanced") else rin["products"]
        want = oracle.mols(side, stereo=False)
        got = oracle.mols(".".join(rec.get("sorted_reactants", [])), stereo=False) if rec.get("sorted_reactants") else None
        if got != want:
            bad.append((["attribution", "molecule-list"], "row {} of {}: sorted_reactants {} is not the multiset of {}".format(
                i, rxns, rec.get("sorted_reactants"), side)))
            continue
        if len(rec.get("mcs_results", [])) != len(rec.get("sorted_reactants", [])):
            bad.append((["attribution", "length"], "row {} of {}: {} patterns for {} molecules".format(
                i, rxns, len(rec.get("mcs_results", [])), len(rec.get("sorted_reactants", [])))))
            continue
        n_clean += 1
        for pat, smi in zip(rec["mcs_results"], rec["sorted_reactants"]):
            if pat == "":
                continue
            q = Chem.MolFromSmarts(pat)
            m = Chem.MolFromSmiles(smi)
            if q is None or m is None or not m.HasSubstructMatch(q):
                bad.append((["attribution", "pattern-not-contained"], "row {} of {}: pattern {} is not contained in {}".format(i, rxns, pat, smi)))
        if alone_cmp is True or (alone_cmp and i in alone_cmp):
            a = alone_record(rxns[i])
            mine = {k: rec.get(k) for k in ("mcs_results", "sorted_reactants", "issue", "smiles", "boundary_atoms_products", "nearest_neighbor_products")}
            if a is not None and mine != a:
                diff = [k for k in mine if mine[k] != a.get(k)]
                bad.append((["attribution", "differs-from-alone", ",".join(diff)],
                            "row {} ({}) of {}: record differs from its alone-run record in {}".format(i, rxns[i], rxns, diff)))
    return bad, n_clean


_ALONE = {}


def alone_record(rx):
    if rx not in _ALONE:
        cap = observe_find([rx])
        rec = cap["out"][0]["mcs"] if "out" in cap else None
        _ALONE[rx] = None if rec is None else {k: rec.get(k) for k in (
            "mcs_results", "sorted_reactants", "issue", "smiles", "boundary_atoms_products", "nearest_neighbor_products")}
    return _ALONE[rx]


def batch_job(rxns):
    cap = observe_find(rxns)
    bad, n_clean = judge_records(list(rxns), cap)
    return {"bad": [{"key": k, "what": w} for k, w in bad], "clean": n_clean}


def corpus_job(rxns):
    cap = observe_find(rxns)
    bad, n_clean = judge_records(list(rxns), cap, alone_cmp=False)
    return {"bad": [{"key": k, "what": w} for k, w in bad], "clean": n_clean,
            "searched": sum(1 for r in cap.get("out", []) if r["mcs"] is not None)}


def _stage_filter(cls, label):
    return any(f in label for f in STAGE_FILES)


def schedule_job(job):
    rxns, root, bound = job["rxns"], explore.dev_from_json(job["root"]), job["bound"]
    bad, outcomes = [], set()

    def on_exec(dev, cap, ctl):
        b, _ = judge_records(list(rxns), cap)
        outcomes.add(json.dumps(cap.get("out"), sort_keys=True, default=str))
        for k, w in b:
            bad.append({"key": ["schedule"] + k, "what": w + " schedule={}".format(explore.dev_to_json(dev)), "dev": explore.dev_to_json(dev)})

    n, _ = explore.subtree(lambda: observe_find(rxns), root, ("order",), bound, on_exec=on_exec, label_filter=_stage_filter,
                           isolation=job["iso"])
    return {"n": n, "bad": bad, "outcomes": len(outcomes)}


def _unaffected_rows(dev, cap):
    """a timed-out search job names its row (label ...@id=k,...): every OTHER row must carry exactly its
    alone-run record; a cancelled RDKit call does not name its row, there only the attribution clauses are judged"""
    import re as _re

    hit = [_re.search(r"@id=(\d+)", lab) for lab, _ in dev.values()]
    if not dev or not all(hit):
        return False
    ids = {int(m.group(1)) for m in hit}
    return {i for i, r in enumerate(cap.get("in", [])) if r.get("id") is not None and int(r["id"]) not in ids}


def cancel_job(job):
    """every single cancelled RDKit search (its own time budget expired) of a batch: every record
    that is still reported without an issue must satisfy the attribution clauses"""
    rxns = job["rxns"]
    bad = []
    n = [0]

    def on_exec(dev, cap, ctl):
        n[0] += 1
        b, _ = judge_records(list(rxns), cap, alone_cmp=_unaffected_rows(dev, cap))
        for k, w in b:
            bad.append({"key": ["cancelled-search"] + k, "what": w + " faults={}".format(explore.dev_to_json(dev)), "dev": explore.dev_to_json(dev)})

    explore.subtree(lambda: observe_find(rxns), {}, ("rdkit", "pool"), 1, on_exec=on_exec, rdkit_alts=("normal", "cancel"),
                    pool_alts=("complete", "timeout"))
    return {"n": n[0], "bad": bad}


def schedule_roots(job):
    rxns = job["rxns"]
    canon = lambda o: json.dumps(o, sort_keys=True, default=str)  # noqa: E731
    obs, ctl = explore.check_replay(lambda: observe_find(rxns), {}, ("order",), canon=canon, isolation=job["iso"])
    kids = explore.children(ctl, {}, 1, explore.default_cost, label_filter=_stage_filter)
    return [explore.dev_to_json(d) for d in kids]


def covering_triples(items):
    n = len(items)
    out = []
    for a, b in ((1, 2), (2, 5), (3, 7), (4, 9), (8, 3)):
        for i in range(n):
            out.append((items[i], items[(i + a) % n], items[(i + b) % n]))
    return out


def run(tier, seed):
    res = Result("model_checking")
    thorough = tier == "thorough"
    # (i)
    all_shapes = list(range(len(SHAPES)))
    jobs = [{"n_rx": 1, "shapes": all_shapes, "first": [s]} for s in all_shapes]
    two = all_shapes if thorough else [0, 1, 2, 3, 4, 6, 9, 10]
    jobs += [{"n_rx": 2, "shapes": two, "first": list(f)} for f in itertools.product(two, repeat=2)]
    jobs += [{"n_rx": 3, "shapes": [0, 2, 3, 4], "first": list(f)} for f in itertools.product([0, 2, 3, 4], repeat=3)] if thorough else []
    rt = pmap("checks.c10:tables_job", jobs, chunk=1, seed=seed, timeout=7200)
    n_tables = sum(x["n"] for x in rt)
    n_dropped = sum(x["dropped"] for x in rt)
    for x in rt:
        for b in x["bad"]:
            res.add(Violation("selection", {"table": b["table"]}, None, None, b["key"], b["what"]))
    if n_dropped:
        res.observations.append("{} (table, reaction) pairs had a positive total but no entry was retained "
                                "(tie + empty first pattern) - not covered by the property statement".format(n_dropped))
    # (ii)
    items = MCS_BOUND + SOLVED
    subs = [tuple(p) for k in (1, 2) for p in itertools.permutations(items, k)]
    subs += [tuple(p) for p in itertools.permutations(items, 3)] if thorough else covering_triples(items)
    rb = pmap("checks.c10:batch_job", subs, chunk=4, seed=seed, timeout=7200)
    n_clean = 0
    for s, x in zip(subs, rb):
        n_clean += x["clean"]
        for b in x["bad"]:
            res.add(Violation("attribution", {"rxns": list(s)}, None, None, b["key"], b["what"]))
    sched_batches = [[MCS_BOUND[0], SOLVED[0], MCS_BOUND[1]], [MCS_BOUND[4], MCS_BOUND[5], SOLVED[1]], [MCS_BOUND[7], MCS_BOUND[2], MCS_BOUND[6]]]
    isos = ("inline", "task") if thorough else ("inline",)
    rj = [{"rxns": b, "iso": iso} for b in sched_batches for iso in isos]
    roots = pmap("checks.c10:schedule_roots", rj, chunk=1, seed=seed, timeout=7200)
    sj = []
    for j, r in zip(rj, roots):
        sj.append({"rxns": j["rxns"], "iso": j["iso"], "root": [], "bound": 0})
        for d in r:
            sj.append({"rxns": j["rxns"], "iso": j["iso"], "root": d, "bound": 2 if thorough else 1})
    rs = pmap("checks.c10:schedule_job", sj, chunk=2, seed=seed, timeout=14400)
    n_exec = sum(x["n"] for x in rs)
    for j, x in zip(sj, rs):
        for b in x["bad"]:
            res.add(Violation("schedule", {"rxns": j["rxns"], "iso": j["iso"], "deviations": b["dev"]}, None, None, b["key"], b["what"]))
    cancel_batches = [[MCS_BOUND[1], MCS_BOUND[4]], [MCS_BOUND[9], MCS_BOUND[0]], [MCS_BOUND[7], MCS_BOUND[5]],
                      [MCS_BOUND[1], MCS_BOUND[4], MCS_BOUND[0]]]
    rcn = pmap("checks.c10:cancel_job", [{"rxns": b} for b in cancel_batches], chunk=1, seed=seed, timeout=7200)
    for b, x in zip(cancel_batches, rcn):
        n_exec += x["n"]
        for v in x["bad"][:6]:
            res.add(Violation("cancelled-search", {"rxns": b, "deviations": v["dev"]}, None, None, v["key"], v["what"]))
    n_corpus = n_corpus_clean = 0
    if thorough:
        from checks import pipefam as pf

        corpus = [r for r in pf.corpus_reactions("reaction") if pf.in_domain(r)]
        cj = [corpus[i:i + 20] for i in range(0, len(corpus), 20)]
        rc = pmap("checks.c10:corpus_job", cj, chunk=1, seed=seed, timeout=14400)
        for s, x in zip(cj, rc):
            n_corpus += x["searched"]
            n_corpus_clean += x["clean"]
            for b in x["bad"]:
                res.add(Violation("corpus", {"rxns": list(s)}, None, None, b["key"], b["what"]))
    res.coverage = {
        "states": n_tables,
        "transitions": n_tables + len(subs) + n_exec,
        "traces_validated_against_impl": len(subs) + n_exec,
        "samples": [{"table": [[2], [3], [4]]}, {"sub_batch": list(subs[40])}, {"schedule": sj[1]}],
        "selection_tables": n_tables,
        "sub_batches": len(subs),
        "schedule_executions": n_exec,
        "clean_records_checked": n_clean + n_corpus_clean,
        "corpus_reactions_searched": n_corpus,
        "evaluations": n_tables + len(subs) + n_exec,
        "distinct_nontrivial": n_tables + n_clean,
        "rule": "(i) every table of 3 conditions x 1 reaction over 11 entry shapes and x 2 reactions over {} shapes{} through "
                "get_largest_condition vs argmax reference; (ii) every ordered sub-batch of size 1..2{} of 10 MCS-bound + 2 "
                "solved reactions observed at MCSSearch.find inside real runs, plus every single{} task-order deviation at the "
                "stage's Parallel calls for 3 batches, and every single cancelled RDKit search / timed-out search job of 4 batches (rows without a fault must carry their alone-run record){}.".format(
                    len(two), " and 3 reactions over 4 shapes" if thorough else "",
                    " and every triple" if thorough else " and 60 covering triples", " and double" if thorough else "",
                    "; complete corpus" if thorough else ""),
        "exhaustive": True,
    }
    res.assumptions = ["the rows handed to MCSSearch.find by the real pipeline define 'the reaction sent to the MCS stage'",
                       "containment is decided by RDKit's substructure matcher on the reported SMARTS"]
    return res


def replay(v):
    c = v.case
    if v.sub == "selection":
        b, _ = judge_table(tuple(tuple(x) for x in c["table"]))
        return [Violation(v.sub, c, None, None, ["selection", b[0]], b[1])] if b and ["selection", b[0]] == v.key else []
    if v.sub in ("attribution", "corpus"):
        x = batch_job(c["rxns"]) if v.sub == "attribution" else corpus_job(c["rxns"])
        return [Violation(v.sub, c, None, None, b["key"], b["what"]) for b in x["bad"] if b["key"] == v.key]
    if v.sub == "cancelled-search":
        dev = explore.dev_from_json(c["deviations"])
        cap, _ = explore.execute(lambda: observe_find(c["rxns"]), dev, ("rdkit", "pool"), rdkit_alts=("normal", "cancel"),
                                 pool_alts=("complete", "timeout"))
        bad, _ = judge_records(c["rxns"], cap, alone_cmp=_unaffected_rows(dev, cap))
        return [Violation(v.sub, c, None, None, ["cancelled-search"] + k, w) for k, w in bad if ["cancelled-search"] + k == v.key]
    if v.sub == "schedule":
        dev = explore.dev_from_json(c["deviations"])
        canon = lambda o: json.dumps(o, sort_keys=True, default=str)  # noqa: E731
        cap, _ = explore.check_replay(lambda: observe_find(c["rxns"]), dev, ("order",), canon=canon, isolation=c["iso"])
        bad, _ = judge_records(c["rxns"], cap)
        return [Violation(v.sub, c, None, None, ["schedule"] + k, w) for k, w in bad if ["schedule"] + k == v.key]
    return []
