"""C12 — result caching is transparent across runs, configurations and crashes.

E2: explicit-state breadth-first search.  The persistent state is the cache directory
(file name -> bytes).  Operations:
    run(cfg, input, batch_size)      a complete Balancer(cache=True).rebalance
    crash(run, point)                the same run killed after a prefix of the effects it
                                     has on the cache directory (byte granularity inside
                                     writes), returning nothing
Every transition materialises the state in a private directory under /dev/shm, executes
the real code with a file-effect recorder around it and reads the directory back.
Oracle: every completed run returns rows and statistics equal to the memoised run of the
same cfg/input/batch_size with caching disabled, and does not raise.

The expensive, state-independent part (Balancer.__run_pipeline) is memoised per
(configuration, batch) behind the real cache/batch logic, which is what is explored.
"""

import builtins
import copy
import io
import json
import os
import shutil
import tempfile
import contextlib

from mc import pipeline
from mc.pool import pmap
from mc.report import Result, Violation

PROPERTY = "C12"

A = "CC(=O)OCC>>CC(=O)O"          # mcs-based, confidence 0.156
B = "CCO>>CC=O"                   # rule-based
C = "CC(=O)O.CCO>>CC(=O)OCC.O"    # input-balanced
AM = "[CH3:1][C:2](=[O:3])[O:4][CH2:5][CH3:6].[OH2:7]>>[CH3:1][C:2](=[O:3])[OH:4].[CH3:6][CH2:5][OH:7]"  # mapped, balanced
INPUTS = {
    "AB": [A, B], "BA": [B, A], "A": [A], "ABC": [A, B, C], "M": [AM, B],
}
# rows that carry two reaction columns; the configured column decides which one is balanced
TWO_COL = {
    "2col": [{"reaction": A, "rxn": B}, {"reaction": C, "rxn": A}],
}
CFGS = {
    "t0": {"threshold": 0, "col": "reaction"},
    "t.5": {"threshold": 0.5, "col": "reaction"},
    "t1": {"threshold": 1, "col": "reaction"},
    "rxn": {"threshold": 0, "col": "rxn"},
    # two thresholds on opposite sides of the confidence of reaction A that agree in their
    # first three decimals (filled in lazily from the observed confidence)
    "t0ns": {"threshold": 0, "col": "reaction", "nostats": True},   # the caller passes no stats dict
    "noaam": {"threshold": 0, "col": "reaction", "remove_aam": False},  # atom maps kept (attribute, no constructor argument)
    # the caller asks for more columns than the default list (public attribute, as SynVis/vis_debug.py does);
    # the cache key is the same as for "t0", so either run may be answered from the other's entry
    "cols": {"threshold": 0, "col": "reaction", "extra_columns": ["mcs", "carbon_balance_check", "unbalance_col"]},
    "tc": {"threshold": None, "col": "reaction", "offset": 0.0},
    "tc+": {"threshold": None, "col": "reaction", "offset": 0.0004},
}
_CONF_A = []


def cfg_of(name):
    cfg = dict(CFGS[name])
    if cfg["threshold"] is None:
        if not _CONF_A:
            b = _balancer("reaction")
            b.confidence_threshold = 0
            b.cache, b.cache_dir = False, None
            rows = b.rebalance([A], output_dict=True)
            _CONF_A.append(float(rows[0]["confidence"]))
        cfg["threshold"] = _CONF_A[0] + cfg["offset"]
    return cfg
BATCH_SIZES = [None, 1, 2]


def run_ops(tier):
    ops = []
    for c in ("t0", "t.5", "t1"):
        for i in INPUTS:
            for bs in BATCH_SIZES:
                ops.append(("run", c, i, bs))
    for c in ("t0", "rxn", "t.5"):
        for bs in (None, 1):
            ops.append(("run", c, "2col", bs))
    for c in ("tc", "tc+", "t0ns"):
        for i in ("A", "AB"):
            for bs in (None, 1):
                ops.append(("run", c, i, bs))
    for c in ("noaam", "t0"):
        for bs in (None, 1):
            ops.append(("run", c, "M", bs))
    for i in ("A", "AB"):
        for bs in (None, 1):
            ops.append(("run", "cols", i, bs))
    return ops


def _input(name):
    if name in INPUTS:
        return list(INPUTS[name])
    return copy.deepcopy(TWO_COL[name])


# --------------------------------------------------------------------- memoised pipeline

_PIPE_MEMO = {}
_BAL = {}


def _balancer(col):
    from synrbl import Balancer

    if col not in _BAL:
        b = Balancer(reaction_col=col, n_jobs=1)
        name = "_Balancer__run_pipeline"
        real = getattr(b, name)

        def memo(reactions, stats=None, _b=b, _real=real):
            key = json.dumps([col, _b.confidence_threshold, _b.remove_aam, reactions], sort_keys=True, default=str)
            if key not in _PIPE_MEMO:
                st = {}
                out = _real(copy.deepcopy(reactions), st)
                _PIPE_MEMO[key] = (out, st)
            out, st = _PIPE_MEMO[key]
            if stats is not None:
                stats.update(copy.deepcopy(st))
            return copy.deepcopy(out)

        setattr(b, name, memo)
        b._verif_base_columns = list(b.columns)
        _BAL[col] = b
    return _BAL[col]


def _norm_rows(rows):
    """rows as a caller can tell them apart: tuples and lists are not distinguished at any depth (an
    entry that went through the JSON file has lists where the pipeline produced tuples)"""
    out = []
    for r in rows:
        r = pipeline.norm_row(r)
        out.append({k: json.loads(json.dumps(v, default=str)) if isinstance(v, (dict, list)) else v for k, v in r.items()})
    return out


def _configure(b, cfg):
    b.confidence_threshold = cfg["threshold"]
    b.remove_aam = cfg.get("remove_aam", True)
    b.columns = list(b._verif_base_columns) + list(cfg.get("extra_columns", []))


# --------------------------------------------------------------------- file effects


class _Rec:
    """Records the effects of the code under test on the cache directory."""

    def __init__(self, root):
        self.root = os.path.realpath(root)
        self.log = []

    def inside(self, p):
        try:
            p = os.path.realpath(os.fspath(p))
        except TypeError:
            return False
        return p.startswith(self.root + os.sep)

    def name(self, p):
        return os.path.relpath(os.path.realpath(os.fspath(p)), self.root)


class _WFile:
    _next = [0]

    def __init__(self, f, rec, name, binary, truncate):
        self._f, self._rec, self._bin = f, rec, binary
        _WFile._next[0] += 1
        self._hid = _WFile._next[0]
        rec.log.append(["open", self._hid, name, bool(truncate)])

    def write(self, data):
        raw = data if self._bin else data.encode("utf-8")
        self._rec.log.append(["write", self._hid, raw.decode("latin-1")])
        return self._f.write(data)

    def writelines(self, lines):
        for ln in lines:
            self.write(ln)

    def flush(self):
        self._rec.log.append(["flush", self._hid])
        return self._f.flush()

    def close(self):
        self._rec.log.append(["close", self._hid])
        return self._f.close()

    def __getattr__(self, k):
        return getattr(self._f, k)

    def __enter__(self):
        return self

    def __exit__(self, *a):
        self._rec.log.append(["close", self._hid])
        return self._f.__exit__(*a)

    def __iter__(self):
        return iter(self._f)


@contextlib.contextmanager
def recording(root):
    rec = _Rec(root)
    real_open, real_replace, real_rename, real_remove, real_unlink = (
        builtins.open, os.replace, os.rename, os.remove, os.unlink)

    def open_(file, mode="r", *a, **k):
        if isinstance(file, (str, bytes, os.PathLike)) and rec.inside(file) and any(c in mode for c in "wax+"):
            name = rec.name(file)
            f = real_open(file, mode, *a, **k)
            return _WFile(f, rec, name, "b" in mode, "w" in mode or "x" in mode)
        return real_open(file, mode, *a, **k)

    def replace_(src, dst, *a, **k):
        if rec.inside(dst) or rec.inside(src):
            rec.log.append(["replace", rec.name(src), rec.name(dst)])
        return real_replace(src, dst, *a, **k)

    def rename_(src, dst, *a, **k):
        if rec.inside(dst) or rec.inside(src):
            rec.log.append(["replace", rec.name(src), rec.name(dst)])
        return real_rename(src, dst, *a, **k)

    def remove_(p, *a, **k):
        if rec.inside(p):
            rec.log.append(["remove", rec.name(p)])
        return real_remove(p, *a, **k)

    builtins.open, os.replace, os.rename, os.remove, os.unlink = open_, replace_, rename_, remove_, remove_
    try:
        yield rec
    finally:
        builtins.open, os.replace, os.rename, os.remove, os.unlink = (
            real_open, real_replace, real_rename, real_remove, real_unlink)


def replay_log(state, log, lengths=None):
    """File-system state after a kill that follows the effect-log prefix `log`.
    state: {name: latin-1 text}.  Written data sits in the writer's buffer until the handle
    is flushed or closed: `lengths` = {handle: bytes of its stream that reached the file}
    for the handles still at risk (default: everything written)."""
    st = dict(state)
    name_of, stream, base = {}, {}, {}
    for e in log:
        if e[0] == "open":
            hid, name, trunc = e[1], e[2], e[3]
            name_of[hid] = name
            stream[hid] = ""
            base[hid] = "" if trunc else st.get(name, "")
            st[name] = base[hid]
        elif e[0] == "write":
            stream[e[1]] += e[2]
        elif e[0] == "replace":
            if e[1] in st:
                st[e[2]] = st.pop(e[1])
            for hid, n in name_of.items():
                if n == e[1]:
                    name_of[hid] = e[2]   # an open handle follows its file
        elif e[0] == "remove":
            st.pop(e[1], None)
    for hid, name in name_of.items():
        if name in st or stream[hid]:
            n = len(stream[hid]) if lengths is None or hid not in lengths else lengths[hid]
            if name in st:
                st[name] = base[hid] + stream[hid][:n]
    return st


def _at_risk(log):
    """{handle: (bytes safely in the file, bytes written)} for handles that are open with
    unflushed data at the end of `log`"""
    written, safe, open_ = {}, {}, set()
    for e in log:
        if e[0] == "open":
            open_.add(e[1])
            written[e[1]] = 0
            safe[e[1]] = 0
        elif e[0] == "write":
            written[e[1]] += len(e[2])
        elif e[0] in ("flush", "close"):
            safe[e[1]] = written.get(e[1], 0)
            if e[0] == "close":
                open_.discard(e[1])
    return {h: (safe[h], written[h]) for h in open_ if written[h] > safe[h]}


def _lengths(lo, hi, stride):
    out = {lo, hi}
    for n in range(lo, hi + 1):
        if stride == 1 or n - lo <= 3 or hi - n <= 3 or n % stride == 0:
            out.add(n)
    return sorted(out)


def crash_states(state, log, stride):
    """All states a kill can leave behind.  Kill points: every prefix of the effect log that
    does not end inside a run of writes to one handle (those are covered by the byte
    positions below); at each kill point every handle with unflushed data may have
    delivered any number of bytes between what was flushed and what was written - every
    `stride`-th byte plus the first and last 3 (stride 1 = every byte)."""
    import itertools

    out = {}
    for e_idx in range(len(log) + 1):
        if e_idx < len(log) and log[e_idx][0] == "write" and e_idx > 0 and log[e_idx - 1][0] == "write" \
                and log[e_idx - 1][1] == log[e_idx][1]:
            continue
        prefix = log[:e_idx]
        risk = _at_risk(prefix)
        if not risk:
            out.setdefault(canon(replay_log(state, prefix)), ("effect", e_idx))
            continue
        hids = sorted(risk)
        for combo in itertools.product(*[_lengths(risk[h][0], risk[h][1], stride) for h in hids]):
            lengths = dict(zip(hids, combo))
            out.setdefault(canon(replay_log(state, prefix, lengths)), ("bytes", e_idx, [[h, n] for h, n in lengths.items()]))
    return out


def canon(state):
    return tuple(sorted(state.items()))


# --------------------------------------------------------------------- transitions


def _shm():
    return "/dev/shm" if os.path.isdir("/dev/shm") else None


def execute(state, op, want_log=False):
    """Run one `run` operation on a materialised copy of `state`.
    -> (new_state, observation, effect log)"""
    _, cfg_name, inp, bs = op
    cfg = cfg_of(cfg_name)
    d = tempfile.mkdtemp(prefix="c12_", dir=_shm())
    try:
        cdir = os.path.join(d, "cache")
        os.makedirs(cdir)
        for name, text in state:
            p = os.path.join(cdir, name)
            os.makedirs(os.path.dirname(p), exist_ok=True)
            with open(p, "wb") as f:
                f.write(text.encode("latin-1"))
        b = _balancer(cfg["col"])
        _configure(b, cfg)
        b.cache, b.cache_dir = True, cdir
        stats, rows, raised = {}, None, None
        sink = io.StringIO()
        with recording(cdir) as rec:
            try:
                with contextlib.redirect_stderr(sink), contextlib.redirect_stdout(sink):
                    rows = b.rebalance(_input(inp), output_dict=True, stats=None if cfg.get("nostats") else stats, batch_size=bs)
            except Exception as e:
                raised = "{}: {}".format(type(e).__name__, str(e)[:120])
        new = {}
        for root, _, files in os.walk(cdir):
            for fn in files:
                p = os.path.join(root, fn)
                with open(p, "rb") as f:
                    new[os.path.relpath(p, cdir)] = f.read().decode("latin-1")
        obs = {"rows": _norm_rows(rows) if rows is not None else None,
               "stats": {k: pipeline.norm_value(v) for k, v in stats.items()}, "raised": raised}
        if "Traceback" in sink.getvalue():
            obs["swallowed"] = sink.getvalue().strip().splitlines()[-1][:200]
        return canon(new), obs, rec.log
    finally:
        b = _BAL.get(cfg["col"])
        if b is not None:
            b.cache, b.cache_dir = False, None
        shutil.rmtree(d, ignore_errors=True)


_REF = {}


def reference(op):
    """the same run with caching disabled"""
    k = tuple(op)
    if k not in _REF:
        _, cfg_name, inp, bs = op
        cfg = cfg_of(cfg_name)
        b = _balancer(cfg["col"])
        _configure(b, cfg)
        b.cache, b.cache_dir = False, None
        stats = {}
        sink = io.StringIO()
        with contextlib.redirect_stderr(sink), contextlib.redirect_stdout(sink):
            rows = b.rebalance(_input(inp), output_dict=True, stats=None if cfg.get("nostats") else stats, batch_size=bs)
        _REF[k] = {"rows": _norm_rows(rows), "stats": {k2: pipeline.norm_value(v) for k2, v in stats.items()},
                   "raised": None}
    return _REF[k]


def judge(op, obs, state):
    """-> (key, what) or None"""
    ref = reference(op)
    if obs["raised"]:
        kind = "unreadable-entry" if any(not _is_json(t) for _, t in state) else "other"
        return (["run-raises", obs["raised"].split(":")[0], kind],
                "{} on a cache with {} entries raises {}".format(op, len(state), obs["raised"]))
    if obs["rows"] != ref["rows"]:
        why = "rows"
        if obs["rows"] is not None and len(obs["rows"]) == len(ref["rows"]):
            diff = [k for a, b in zip(obs["rows"], ref["rows"]) for k in set(a) | set(b) if a.get(k) != b.get(k)]
            why = "rows:" + ",".join(sorted(set(diff)))
        return (["differs-from-uncached", why, op[1]],
                "{} returns rows that differ from the uncached run ({}){}".format(
                    op, why, " swallowed: " + obs["swallowed"] if obs.get("swallowed") else ""))
    if obs["stats"] != ref["stats"]:
        return (["differs-from-uncached", "stats", op[1]],
                "{} returns stats {} but uncached {}".format(op, obs["stats"], ref["stats"]))
    return None


def _is_json(text):
    try:
        json.loads(text)
        return True
    except Exception:
        return False


def expand(job):
    """worker: every run op out of one state; optionally the crash states of each run"""
    state = tuple(tuple(x) for x in job["state"])
    out = []
    for op in job["ops"]:
        op = tuple(op)
        new, obs, log = execute(state, op)
        bad = judge(op, obs, state)
        rec = {"op": op, "next": new, "bad": bad, "hit": len(log) == 0, "crash": None}
        stride = job.get("stride")
        if stride:
            if tuple(op) in FINE_OPS and job.get("fine"):
                stride = 1
            cs = crash_states(dict(state), log, stride)
            # the entry states the property names whatever the writer does: every entry this run wrote, left empty or as a
            # truncated prefix (quick: 0, 1, half, the prefixes ending with the first / last inner '}', all but one byte;
            # thorough: every stride-th byte)
            old = dict(state)
            for name, text in new:
                if old.get(name) == text or not name.endswith(".cache"):
                    continue
                if job.get("fine"):
                    cuts = _lengths(0, len(text) - 1, stride)
                else:
                    cuts = {0, 1, len(text) // 2, len(text) - 1, text.find("}") + 1, text.rfind("}", 0, len(text) - 1) + 1}
                for n in sorted(c for c in cuts if 0 <= c < len(text)):
                    st2 = dict(new)
                    st2[name] = text[:n]
                    cs.setdefault(canon(st2), ("entry-prefix", name, n))
            cs.pop(new, None)
            cs.pop(state, None)
            rec["crash"] = [(k, v) for k, v in cs.items()]
        out.append(rec)
    return out


FINE_OPS = {("run", "t0", "A", None), ("run", "t0", "AB", 1), ("run", "t.5", "ABC", 2)}


# --------------------------------------------------------------------- search


def _h(state):
    import hashlib

    return hashlib.sha1(repr(state).encode()).hexdigest()


def run(tier, seed):
    res = Result("model_checking")
    ops = run_ops(tier)
    thorough = tier == "thorough"
    # frontier items: (state, history, remaining depth, crash stride or None)
    seen = {_h(()): 3}
    frontier = [((), [], 3, 16 if thorough else 512)]
    n_trans = n_crash = 0
    outcomes = set()
    max_depth = 0
    layer = 0
    while frontier:
        layer += 1
        jobs = [{"state": st, "ops": ops, "stride": stride if rem >= 2 else None, "fine": thorough and not hist}
                for st, hist, rem, stride in frontier]
        results = pmap("checks.c12:expand", jobs, chunk=1, seed=seed, timeout=7200)
        nxt = []
        for (state, hist, rem, stride), trans in zip(frontier, results):
            for t in trans:
                n_trans += 1
                outcomes.add(json.dumps([t["op"], t["bad"][0] if t["bad"] else None, t["hit"]]))
                h2 = hist + [list(t["op"])]
                max_depth = max(max_depth, len(h2))
                if t["bad"]:
                    key, what = t["bad"]
                    res.add(Violation("history", {"history": h2}, None, None, key,
                                      "after {}: {}".format(hist, what)))
                k = _h(t["next"])
                if rem - 1 >= 1 and seen.get(k, 0) < rem - 1:
                    seen[k] = rem - 1
                    # crashes are generated from the empty cache (quick) and also from
                    # crash-free depth-1 states (thorough, coarse)
                    nstride = 256 if (thorough and not any(h[0] == "crash" for h in h2) and len(h2) == 1) else None
                    nxt.append((t["next"], h2, rem - 1, nstride))
                else:
                    seen.setdefault(k, 0)
                for cstate, point in (t["crash"] or []):
                    n_crash += 1
                    ck = _h(cstate)
                    crem = 1   # a crash state is followed by every single run (not by pairs of runs)
                    if seen.get(ck, 0) < crem:
                        seen[ck] = crem
                        h3 = hist + [["crash"] + list(t["op"][1:]) + [list(point)]]
                        nxt.append((cstate, h3, crem, None))
        frontier = nxt
    res.coverage = {
        "states": len(seen),
        "transitions": n_trans + n_crash,
        "traces_validated_against_impl": n_trans,
        "samples": [{"history": [["run", "t0", "AB", None], ["run", "t.5", "AB", None]]},
                    {"history": [["crash", "t0", "A", 1, ["byte", 1, 64]], ["run", "t0", "A", 1]]},
                    {"run_ops": len(ops)}],
        "max_history_length": max_depth,
        "run_transitions": n_trans,
        "crash_transitions": n_crash,
        "distinct_outcomes": len(outcomes),
        "evaluations": n_trans,
        "distinct_nontrivial": len(seen),
        "rule": "BFS over cache-directory contents: all crash-free histories of <= 3 runs over {} run operations "
                "(3 thresholds x 4 inputs x batch sizes None/1/2, two thresholds 0.0004 apart on either side of an observed "
                "confidence, runs without a stats argument, atom-map removal switched off on a mapped input, two-column rows under two column configurations); crashes: every run from the empty cache{} killed after every prefix of its recorded "
                "file effects and, inside each written file, at every {} byte plus the first/last 3 bytes{}; each crash "
                "state is followed by every run operation{}.  Every run transition executes the real rebalance and "
                "is compared with the uncached run.".format(
                    len(ops), " and from every crash-free depth-1 state" if thorough else "",
                    "16th" if thorough else "512th",
                    " (every single byte for 3 designated runs)" if thorough else "",
                    ""),
        "exhaustive": True,
    }
    res.assumptions = [
        "Balancer.__run_pipeline is deterministic in (configuration, batch) and is memoised behind the real cache logic",
        "a kill leaves a prefix of the run's file effects; data written to a handle reaches the file only when the handle is flushed or closed - until then any prefix between the flushed and the written bytes may be in the file (also after a rename of the open file)",
        "the persistent state is the cache directory only",
    ]
    return res


def replay(v):
    """Re-execute the recorded history from the empty cache."""
    state = ()
    out = []
    hist = v.case["history"]
    for i, h in enumerate(hist):
        if h[0] == "run":
            op = ("run", h[1], h[2], h[3])
            new, obs, log = execute(state, op)
            bad = judge(op, obs, state)
            if bad and i == len(hist) - 1 and bad[0] == v.key:
                out.append(Violation("history", v.case, obs, reference(op), bad[0], bad[1]))
            state = new
        else:
            op = ("run", h[1], h[2], h[3])
            point = h[4]
            new, _, log = execute(state, op)
            if point[0] == "entry-prefix":
                st = dict(new)
                st[point[1]] = st[point[1]][: point[2]]
            elif point[0] == "effect":
                st = replay_log(dict(state), log[: point[1]])
            else:
                # handle ids differ between executions; the handles at risk are matched in
                # the order in which they were opened
                risk = sorted(_at_risk(log[: point[1]]))
                lengths = {rh: n for rh, (_, n) in zip(risk, sorted(point[2]))}
                st = replay_log(dict(state), log[: point[1]], lengths)
            state = canon(st)
    return out
