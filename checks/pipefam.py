"""Shared universes, batch runner and row oracles for the properties that are decided on
Balancer.rebalance rows (C01 C02 C03 C04 C18).  All enumeration is complete for the
stated alphabets; nothing is sampled."""

import itertools

from mc import oracle, universe, pipeline

# ordered molecule alphabet: one molecule per pipeline shortcut (DESIGN §4/C01)
A01 = [
    "CCO", "CC=O", "CC(=O)O", "O", "CC(C)=O", "CC(C)O", "CCOC(C)=O", "CCCl",
    "CN", "CNC(C)=O", "CC(Cl)=O", "[H][H]", "CC(=O)[O-].[Na+]", "Cl",
]

# marker alphabet for C02: molecules whose text contains the pipeline's string markers
MARKERS = ["[H][H]", "[HH]", "OO", "COO", "CC(=O)OO", "[Na]Cl", "[Na]O", "[H-].[Na+]",
           "[CH3][OH]", "[CH3:1][OH:2]"]

# hand-built reactions for seams that need larger molecules
HAND = [
    "CC(=O)OCC>>CC(=O)O",
    "CC(=O)OC=C>>CC(=O)O",
    "c1ccccc1Br.OB(O)c1ccccc1>>c1ccccc1-c1ccccc1",
    "c1ccccc1I.OB(O)c1ccc(C)cc1>>Cc1ccc(cc1)-c1ccccc1",
    "CCCO.BrC(Br)(Br)Br.c1ccc(P(c2ccccc2)c2ccccc2)cc1>>CCCBr",
    "CCCO.ClC(Cl)(Cl)Cl.c1ccc(P(c2ccccc2)c2ccccc2)cc1>>CCCCl",
    "C=CC.O=C(OO)c1cccc(Cl)c1>>CC1CO1",
    "CC(=O)C.O=C(OO)c1ccccc1>>COC(C)=O",
    "CC(C)(C)OC(=O)NCc1ccccc1>>NCc1ccccc1",
    "COC(=O)CCNC(=O)OCc1ccccc1>>COC(=O)CCN",
    "CC(=O)Cl.NCc1ccccc1>>CC(=O)NCc1ccccc1",
    "CC(=O)O.NCC>>CC(=O)NCC",
    "CC(=O)OC(C)=O.OCC>>CC(=O)OCC",
    "CCOC(=O)CC(=O)OCC>>OC(=O)CC(=O)O",
    "COc1ccccc1>>Oc1ccccc1",
    "CS(=O)(=O)OCCc1ccccc1.[N-]=[N+]=[N-]>>[N-]=[N+]=NCCc1ccccc1",
    "CCBr.[OH-]>>CCO",
    "CCBr.[Na+].[OH-]>>CCO",
    "CC(=O)[O-].[Na+].CCBr>>CCOC(C)=O",
    "O=Cc1ccccc1>>OCc1ccccc1",
    "OCc1ccccc1>>O=Cc1ccccc1",
    "OCc1ccccc1>>OC(=O)c1ccccc1",
    "O=Cc1ccccc1>>OC(=O)c1ccccc1",
    "CC(=O)c1ccccc1>>CC(O)c1ccccc1",
    "OC(=O)c1ccccc1>>OCc1ccccc1",
    "COC(=O)c1ccccc1>>OCc1ccccc1",
    "O=[N+]([O-])c1ccccc1>>Nc1ccccc1",
    "C=Cc1ccccc1>>CCc1ccccc1",
    "N#Cc1ccccc1>>NCc1ccccc1",
    "CC(C)=O.NCc1ccccc1>>CC(C)NCc1ccccc1",
    "C[Si](C)(C)OCc1ccccc1>>OCc1ccccc1",
    "CC(C)(C)[Si](C)(C)OCCc1ccccc1>>OCCc1ccccc1",
    "c1ccccc1.CC(=O)Cl>>CC(=O)c1ccccc1",
    "c1ccccc1.O=[N+]([O-])O>>O=[N+]([O-])c1ccccc1",
    "OC(=O)CCc1ccccc1.CO>>COC(=O)CCc1ccccc1",
    "CCOC(=O)C1CCCC1=O>>O=C1CCCC1",
    "CC(=O)Oc1ccccc1C(=O)O>>Oc1ccccc1C(=O)O",
    "CCN(CC)CC.CC(=O)Cl.OCc1ccccc1>>CC(=O)OCc1ccccc1",
    "ClCc1ccccc1.N#C[K]>>N#CCc1ccccc1",
    "ClCc1ccccc1.[C-]#N.[K+]>>N#CCc1ccccc1",
    "CCOC(=O)c1ccccc1.NN>>NNC(=O)c1ccccc1",
    "C1CO1.CN>>CNCCO",
    "CC(=O)OCC.CCC>>CC(=O)O.CCC",
    "CCO.O>>CC(=O)O",
    # MCS results whose confidence rounds to 0.000 (a large unreactive spectator)
    "NCCc1ccccc1.O=Cc1ccccc1.CCCCCCCCCCCC>>O=C(NCCc1ccccc1)c1ccccc1",
    "NCCCCc1ccccc1.Cc1ccc(C=O)cc1.CCCCN(CCCC)CCCC>>Cc1ccc(C(=O)NCCCCc2ccccc2)cc1",
]

# heavy / ionic / isotopic / stereo / mapped family
SPECIAL = [
    # text hygiene: blanks / tabs that RDKit tolerates (everything after the first blank of a SMILES is its name)
    " CCO>>CC=O", "CCO >>CC=O", "CCO>> CC=O", "CCO>>CC=O ", "CCO\t>>CC=O", "CC(=O)OCC >>CC(=O)O.CCO", "CC(=O)O.CCO>>CC(=O)OCC ",
    "CC(=O)Cl.NCc1ccccc1 >>CC(=O)NCc1ccccc1", " CC(=O)O.CCO>>CC(=O)OCC.O",
    # a side written with aromatic (lower-case) atoms only
    "C1=CC=CC=C1>>c1ccccc1", "c1ccccc1.[H][H].[H][H].[H][H]>>C1CCCCC1", "c1ccoc1.[H][H].[H][H]>>C1CCOC1", "c1ccccc1>>C1CCCCC1",
    "c1ccncc1.O>>c1ccncc1.O", "C1CCCCC1>>c1ccccc1",
    "[U]>>[Th]", "[U]>>[U]", "F[U](F)(F)(F)(F)F>>F[U](F)(F)F", "[Og]>>[Og].[Og]",
    "[13CH3]CO>>[13CH3]C=O", "[2H]OC(C)=O>>CC(=O)O", "C[C@H](O)CC>>C[C@@H](O)CC",
    "C[C@H](N)C(=O)OC>>C[C@H](N)C(=O)O", "N[C@@H](C)C(=O)O.CO>>N[C@@H](C)C(=O)OC",
    "[CH3:1][CH2:2][OH:3]>>[CH3:1][CH:2]=[O:3]",
    "[CH3:1][C:2](=[O:3])[O:4][CH2:5][CH3:6]>>[CH3:1][C:2](=[O:3])[OH:4]",
    "[CH3:1][C:2](=[O:3])[OH:4].[CH3:5][CH2:6][OH:7]>>[CH3:1][C:2](=[O:3])[O:7][CH2:6][CH3:5].[OH2:4]",
    "CC(=O)[O-].[Na+]>>CC(=O)O", "CC(=O)O.[Na+].[OH-]>>CC(=O)[O-].[Na+]",
    "C[N+](C)(C)C.[Cl-]>>CN(C)C", "[NH4+].[Cl-]>>N", "CC(=O)[O-]>>CC(=O)O",
    "CC(=O)O>>CC(=O)[O-]", "[Mg+2].[Cl-].[Cl-]>>[Mg+2]", "[Li]CCCC.O>>CCCC",
    "C[Mg]Br.CC=O>>CC(C)O", "[K+].[I-].CCCl>>CCI", "CC[Th]>>CC", "CC.[U]>>CC",
    "[NH3+]CC(=O)[O-]>>NCC(=O)O", "[13C]>>[12C]" ,
    # charge-only imbalances (redox half reactions): elements balanced, net charge not
    "ClCl>>[Cl-].[Cl-]", "OO>>[OH-].[OH-]", "O=[Mn](=O)(=O)[O-]>>O=[Mn](=O)([O-])[O-]", "[Fe+2]>>[Fe+3]",
    "[Fe+3]>>[Fe+2]", "[Cu+2].[I-].[I-]>>[Cu+].[I-].[I-]", "CC(=O)[O-].BrBr>>CC(=O)[O-].[Br-].[Br-]",
    "[O-][O-]>>[OH-].[OH-]", "[Cl-]>>[Cl-].[Cl-]",
    # bonds written with a ring-closure digit across a dot (C1.C1 is ethane, C1.N1 methylamine)
    "CCBr>>N", "C>>N", "[Na+].[Cl-]>>CCO",      # reach the MCS stage, nothing in common
    "C1.C1.O>>O", "CC(=O)O.OCC.C1.N1>>CC(=O)OCC.O", "CCO>>CCO.C1.O1", "C1.C1>>CC", "CC(=O)OCC.C1.C1>>CC(=O)O.CC",
]


def _large():
    """size ladder: the same reaction shapes at sizes around typical shortcut thresholds
    (64, 128, 256 atoms); hydrogens sit in bracket atoms on one side only"""
    out = []
    for k in (2, 30, 62, 63, 64, 70, 126, 130):
        chain = "C" * k
        diol = chain + "[C@H](O)[C@H](O)" + chain
        enediol = chain + "C(O)=C(O)" + chain
        dione = chain + "C(=O)C(=O)" + chain
        out.append(diol + ">>" + enediol)            # H2 missing, both hydrogens from bracket atoms
        out.append(diol + ">>" + diol)               # balanced
        out.append(diol + ">>" + enediol + ".[H][H]")  # balanced
        out.append(enediol + ">>" + dione)           # H2 missing, no bracket hydrogens involved
        out.append("[NH3+]" + chain + "C(=O)[O-]>>N" + chain + "C(=O)O")  # balanced zwitterion / neutral
        out.append("N" + chain + "C(=O)O.Cl>>[NH3+]" + chain + "C(=O)O")  # chloride missing
    return out


LARGE = _large()
# beyond 1000 carbon atoms (RDKit's default match limit, four-digit counts)
_K = "C" * 1001
LARGE += [_K + ">>" + _K + ".C=O",                         # product side carbon surplus: must be declined
          "O" + "CCO" * 500 + ">>O" + "CCO" * 500 + "CO",  # the same as one molecule (PEG -> hemiformal)
          _K + "O>>" + _K + "=O",                          # H2 missing
          _K + "=O.[H][H]>>" + _K + "O",                   # balanced
          _K + ".C>>" + _K + "C"]                          # H2 missing, 1002 carbon atoms on both sides


# reactions whose MCS imputation succeeds but leaves a non-carbon imbalance behind
RESIDUAL = ["CCCC(CC(=O)OC)C[N+]([O-])=O>>CCCC1CNC(=O)C1", "COC(=O)CCC[N+]([O-])=O>>O=C1CCCN1",
            "O=[N+]([O-])c1ccccc1C(=O)OC>>Nc1ccccc1C(=O)O", "CC(=O)c1ccccc1C(=O)OCC>>CC(O)c1ccccc1C(=O)O",
            "OCc1ccccc1C(=O)OC>>O=Cc1ccccc1C(=O)O", "CC(=O)O.O>>CCC=O", "CC(=O)OC.O>>CCC(C)=O"]


def _placeholders():
    """valid but open-shell inputs: the hand-built reactions with atomic hydrogen / oxygen
    reagents written on the reactant side (the notation the tool itself emits)"""
    out = []
    extra = ["CCCC(CC(=O)OC)C[N+]([O-])=O>>CCCC1CNC(=O)C1", "O=[N+]([O-])c1ccccc1C(=O)OC>>Nc1ccccc1C(=O)O",
             "CC(=O)c1ccccc1C(=O)OCC>>CC(O)c1ccccc1C(=O)O", "OCc1ccccc1C(=O)OC>>O=Cc1ccccc1C(=O)O"]
    for r in HAND + extra:
        a, b = r.split(">>")
        out.append(a + ".[H].[H]>>" + b)
        out.append(a + ".[O]>>" + b)
    return out


PLACEHOLDERS = _placeholders()


def dedupe(seq):
    seen, out = set(), []
    for s in seq:
        if s not in seen:
            seen.add(s)
            out.append(s)
    return out


def rxn_universe(alphabet, k=2):
    return universe.Rxn(alphabet, k)


def in_domain(rsmi, allow_open_shell=False):
    """valid reaction of (closed-shell) molecules"""
    t = oracle.split_reaction(rsmi)
    if t is None or t[0] == "" or t[1] == "":
        return False
    for side in t:
        if oracle.parse(side) is None:
            return False
        if not allow_open_shell and not oracle.closed_shell(side):
            return False
    return True


def corpus_reactions(kind="reaction"):
    rows = universe.corpus_rows()
    return [r[kind] for r in rows if r.get(kind)]


# ---------------------------------------------------------------------------- batches


IDMIX = [
    "CC(=O)O.CCO>>CC(=O)OCC.O",                      # balanced
    "CC=O>>CCO",                                     # rule-based (H2)
    "CCBr.[OH-]>>CCO",                               # rule-based (bromide)
    "CC(=O)OCC>>CC(=O)O",                            # MCS
    "C=CC=C.C=CC(=O)OC>>COC(=O)C1CC=CCC1",           # balanced
    "CC(=O)Cl.NCc1ccccc1>>CC(=O)NCc1ccccc1",         # rule-based (HCl)
]


def ids_universes():
    """dict rows that bring their own id column (1-based, reversed, textual) in every rotation of a mixed list,
    as one batch and with batch_size 2: a row's result must not depend on the id it was given"""
    us = []
    n = len(IDMIX)
    for kind in ("onebased", "reversed", "text"):
        for rot in range(n):
            rx = IDMIX[rot:] + IDMIX[:rot]
            ident = {"onebased": lambda i: i + 1, "reversed": lambda i: n - 1 - i, "text": lambda i: "R{}".format(100 + i)}[kind]
            rows = [{"reaction": r, "id": ident(i), "note": "row {}".format(i)} for i, r in enumerate(rx)]
            for bs in (None, 2):
                us.append(("own ids {} rot {} bs {}".format(kind, rot, bs), rows, {"batch_size": bs} if bs else {}, n))
    return us


def make_specs(rxns, batch=20, **cfg):
    """Split a reaction list into pipeline runs of `batch` rows (one Balancer.rebalance
    call each)."""
    specs = []
    for i in range(0, len(rxns), batch):
        s = {"rxns": rxns[i : i + batch]}
        s.update(cfg)
        specs.append(s)
    return specs


def eval_spec(job):
    """worker: run one batch and evaluate the row oracles of job['props'] on it.
    Returns {"n": rows, "viol": [...], "nontrivial": [...distinct keys...], "counts": {}}"""
    spec, props = job["spec"], job["props"]
    before = [] if spec.get("fresh") else pipeline.prior(spec)
    out = pipeline.run(spec)
    r = evaluate(spec, out, props)
    if r["viol"] and before:
        _localise(spec, props, before, r)
    return r


# explicit two-call histories on ONE fresh Balancer (first call, second call); the oracles are evaluated on the second call
_T = ["CCO>>CC=O", "CC(=O)C>>CC(O)C", "CCCO.O>>CCC(=O)O"]            # rows that the reagent-template stage rewrites
_D = ["CC>>CCC", "CCBr>>N", "CCCC>>CC.C"]                            # rows that end declined
_S = ["CC(=O)OCC>>CC(=O)O", "CC(=O)O.CCO>>CC(=O)OCC.O", "CC=O>>CCO"]  # mcs / balanced / rule-based
CALL_HISTORIES = [(_T, _D), (_D, _T), (_T, _S), (_S, _T), (_T, _T), (_T[::-1] + _D, _D + _T), (_S + _T, _T + _S + _D)]


def eval_history(job):
    """worker: first call then second call on one fresh Balancer; oracles on the rows of the second call"""
    first, second, props = job["first"], job["second"], job["props"]
    hist = [{"rxns": list(first)}]
    spec = {"rxns": list(second)}
    if job.get("batch_size"):
        hist[0]["batch_size"] = spec["batch_size"] = job["batch_size"]
    r = evaluate(spec, pipeline.run_history(hist, spec), props)
    for v in r["viol"]:
        v["case"]["history"] = hist
        v["what"] += " [second call on a Balancer that first ran {}]".format(first)
    return r


_LOCALISED = {}


def _same(w, v):
    return w["key"] == v["key"] and w["case"].get("index") == v["case"].get("index")


def _localise(spec, props, before, r):
    """A row can fail because of what this worker's long-lived Balancer was asked to do in EARLIER runs (state kept
    on the instance).  For the first failures of every root cause find out, here in the worker, whether the run fails
    on a fresh Balancer as well, and if not, how many of the most recent earlier runs have to be replayed on a fresh
    Balancer to make it fail again; that history becomes part of the case (and of its replay file)."""
    for v in r["viol"]:
        k = repr(v["key"])
        if _LOCALISED.get(k, 0) >= 2:
            continue
        _LOCALISED[k] = _LOCALISED.get(k, 0) + 1
        fresh = dict(spec, fresh=True)
        if any(_same(w, v) for w in evaluate(fresh, pipeline.run(fresh), props)["viol"]):
            continue   # self-contained
        n = 1
        while True:
            hist = before[-n:]
            again = evaluate(spec, pipeline.run_history(hist, spec), props)["viol"]
            if any(_same(w, v) for w in again):
                v["case"]["history"] = hist
                v["what"] += " [a fresh Balancer that first ran the {} preceding run(s) of this worker]".format(len(hist))
                break
            if n >= len(before) or n >= 64:
                break
            n *= 2


def evaluate(spec, out, props):
    rxns = spec["rxns"]
    viol, nontrivial = [], []
    rows = out["rows"]
    res = {"n": len(rxns), "viol": viol, "nontrivial": nontrivial, "raised": out["raised"]}
    if rows is None or len(rows) != len(rxns):
        # row-count problems are C05's; for valid inputs they are still reported here
        viol.append({
            "prop": "*", "sub": "rows", "case": spec, "key": ["row-count"],
            "observed": {"rows": None if rows is None else len(rows), "raised": out["raised"],
                         "swallowed": out.get("swallowed")},
            "expected": len(rxns),
            "what": "run of {} valid reactions returned {} rows ({})".format(
                len(rxns), None if rows is None else len(rows),
                out["raised"] or out.get("swallowed")),
        })
        return res
    for i, (rx, row) in enumerate(zip(rxns, rows)):
        text = rx if isinstance(rx, str) else rx.get(spec.get("reaction_col") or "reaction")
        if props == ["C18"]:
            continue  # statistics only
        for p in props:
            f = ORACLES[p]
            for v in f(text, row, spec):
                v["prop"] = p
                v["case"] = {"rxn": text, "threshold": spec.get("threshold", 0),
                             "batch": spec["rxns"], "index": i,
                             "batch_size": spec.get("batch_size")}
                viol.append(v)
            nt = NONTRIVIAL[p](text, row)
            if nt:
                nontrivial.append((p, nt))
    if "C18" in props:
        for v in stats_oracle(rows, out["stats"], len(rxns)):
            v["prop"] = "C18"
            v["case"] = {"batch": spec["rxns"], "threshold": spec.get("threshold", 0),
                         "batch_size": spec.get("batch_size")}
            viol.append(v)
        nontrivial.append(("C18", repr(sorted(out["stats"].items()))))
    return res


# ---------------------------------------------------------------------------- oracles


def _diff(a, b):
    keys = sorted(set(a) | set(b))
    return {k: a.get(k, 0) - b.get(k, 0) for k in keys if a.get(k, 0) != b.get(k, 0)}


def c01(text, row, spec):
    if not row.get("solved"):
        return []
    r = row.get("reaction")
    t = oracle.split_reaction(r)
    if t is None:
        return [dict(sub="solved-balanced", key=["no-single-separator"], observed=r,
                     expected="one '>>'", what="solved row without exactly one '>>': {}".format(r))]
    a, b = oracle.comp(t[0]), oracle.comp(t[1])
    if a is None or b is None:
        return [dict(sub="solved-balanced", key=["unparsable", row.get("solved_by")], observed=r,
                     expected="parsable", what="solved row does not parse: {}".format(r))]
    if a != b:
        d = _diff(a, b)
        templ = "template" if ("[Mn]" in r or "[Cr]" in r or "[K]" in r) else "plain"
        return [dict(sub="solved-balanced", key=["solved-unbalanced", row.get("solved_by"), templ],
                     observed={"reaction": r, "lhs-rhs": d}, expected="equal compositions",
                     what="{} -> solved by {} but lhs-rhs = {} in {}".format(
                         text, row.get("solved_by"), d, r))]
    return []


def c01_nt(text, row):
    if row.get("solved"):
        return (row.get("solved_by"), text)
    return None


def c02(text, row, spec):
    out = []
    t_in = oracle.split_reaction(text)
    r, ir = row.get("reaction"), row.get("input_reaction")
    t_out, t_ir = oracle.split_reaction(r), oracle.split_reaction(ir)
    if t_out is None or t_ir is None:
        return [dict(sub="whole-molecules", key=["unsplittable-output"], observed={"reaction": r, "input_reaction": ir},
                     expected="two sides", what="output of {} cannot be split".format(text))]
    for name, s in (("reaction", r), ("input_reaction", ir)):
        if oracle.has_atom_map(s):
            out.append(dict(sub="no-atom-maps", key=["atom-map-left", name], observed=s, expected="no :n",
                            what="{} of {} still carries atom maps: {}".format(name, text, s)))
    for side, si, so, sr in (("reactants", t_in[0], t_out[0], t_ir[0]), ("products", t_in[1], t_out[1], t_ir[1])):
        mi, mo, mr = oracle.mols(si), oracle.mols(so), oracle.mols(sr)
        if mo is None or mr is None:
            out.append(dict(sub="whole-molecules", key=["unparsable-output", side],
                            observed={"reaction": r, "input_reaction": ir}, expected="parsable",
                            what="{} side of the result of {} does not parse".format(side, text)))
            continue
        if mr != mi:
            out.append(dict(sub="input-reaction", key=["input_reaction-differs", side],
                            observed=ir, expected=text,
                            what="input_reaction {} is not the input {} on the {} side".format(ir, text, side)))
        if not oracle.multiset_leq(mi, mo):
            lost = {k: v - mo.get(k, 0) for k, v in mi.items() if mo.get(k, 0) < v}
            kind = "marker" if any(k in ("OO", "[H][H]", "[HH]") for k in lost) else "other"
            out.append(dict(sub="whole-molecules", key=["molecule-lost", kind, row.get("solved_by")],
                            observed={"reaction": r, "lost": lost}, expected="input molecules kept",
                            what="{} -> {} loses {} on the {} side".format(text, r, lost, side)))
    return out


def c02_nt(text, row):
    if row.get("reaction") != row.get("input_reaction"):
        return text
    return None


def c03(text, row, spec):
    out = []
    solved = bool(row.get("solved"))
    issue = row.get("issue")
    if not solved:
        if row.get("reaction") != row.get("input_reaction"):
            out.append(dict(sub="declined-untouched", key=["declined-modified", row.get("solved_by")],
                            observed=row, expected="reaction == input_reaction",
                            what="{} declined but returned as {}".format(text, row.get("reaction"))))
        t_in, t_ir = oracle.split_reaction(text), oracle.split_reaction(row.get("input_reaction"))
        # (for open-shell inputs the tool's atom-map step rewrites [O]/[H] atoms, which the
        # suite pins; what "the input" is there is C15's business, on its closed-shell domain)
        if in_domain(text) and (t_ir is None or any(oracle.mols(a) != oracle.mols(b) for a, b in zip(t_in, t_ir))):
            out.append(dict(sub="declined-untouched", key=["declined-not-input"],
                            observed=row, expected=text,
                            what="{} declined but input_reaction is {}".format(text, row.get("input_reaction"))))
        if not isinstance(issue, str) or issue.strip() == "":
            out.append(dict(sub="declined-reason", key=["declined-without-issue"],
                            observed=row, expected="non-empty issue",
                            what="{} declined without an issue text".format(text)))
    else:
        if row.get("solved_by") not in ("input-balanced", "rule-based", "mcs-based"):
            out.append(dict(sub="solved-method", key=["solved-without-method"], observed=row,
                            expected="one of the three methods",
                            what="{} solved by {!r}".format(text, row.get("solved_by"))))
        if issue not in ("", None):
            out.append(dict(sub="solved-issue", key=["solved-with-issue", row.get("solved_by")], observed=row,
                            expected="empty issue", what="{} solved but issue = {!r}".format(text, issue)))
    t = oracle.split_reaction(text)
    nr, np_ = oracle.n_carbon(t[0]), oracle.n_carbon(t[1])
    if np_ > nr and solved:
        out.append(dict(sub="carbon-surplus", key=["carbon-surplus-solved", row.get("solved_by")], observed=row,
                        expected="declined", what="{} has more product carbons but is solved".format(text)))
    return out


def c03_nt(text, row):
    if not row.get("solved"):
        return ("declined", row.get("issue"), text)
    return ("solved", row.get("solved_by"), text)


def c04(text, row, spec):
    out = []
    bal = oracle.balanced(text)
    ib = row.get("solved_by") == "input-balanced"
    if bal and not ib:
        out.append(dict(sub="balanced-passes", key=["balanced-not-passed", row.get("solved_by")], observed=row,
                        expected="input-balanced",
                        what="balanced input {} came back as {}/{}".format(text, row.get("solved"), row.get("solved_by"))))
    if ib:
        if not bal:
            out.append(dict(sub="converse", key=["unbalanced-labelled-input-balanced"], observed=row,
                            expected="not input-balanced", what="unbalanced input {} labelled input-balanced".format(text)))
        if not row.get("solved"):
            out.append(dict(sub="balanced-passes", key=["input-balanced-unsolved"], observed=row,
                            expected="solved", what="{} input-balanced but not solved".format(text)))
        if row.get("reaction") != row.get("input_reaction"):
            out.append(dict(sub="unchanged", key=["input-balanced-modified"], observed=row,
                            expected="reaction == input_reaction",
                            what="{} input-balanced but returned {}".format(text, row.get("reaction"))))
        t_in, t_out = oracle.split_reaction(text), oracle.split_reaction(row.get("reaction"))
        if t_out is None or any(oracle.mols(a) != oracle.mols(b) for a, b in zip(t_in, t_out)):
            out.append(dict(sub="unchanged", key=["input-balanced-other-molecules"], observed=row,
                            expected=text, what="{} input-balanced but molecules differ: {}".format(text, row.get("reaction"))))
    return out


def c04_nt(text, row):
    return ("balanced" if oracle.balanced(text) else "unbalanced", text)


def stats_oracle(rows, stats, n_in):
    out = []

    def cnt(pred):
        return sum(1 for r in rows if pred(r))

    n_ib = cnt(lambda r: r.get("solved_by") == "input-balanced")
    n_rb = cnt(lambda r: r.get("solved_by") == "rule-based")
    n_mcs = cnt(lambda r: r.get("solved_by") == "mcs-based")
    n_mcs_solved = cnt(lambda r: r.get("solved_by") == "mcs-based" and r.get("solved"))
    def _valid(r):
        # a row whose input is not a parsable reaction is declined before any stage and never
        # reaches the MCS stage (C05's business); it still counts as an input row
        t = oracle.split_reaction(r.get("input_reaction"))
        return t is not None and oracle.parse(t[0]) is not None and oracle.parse(t[1]) is not None

    n_not_before = cnt(lambda r: r.get("solved_by") not in ("input-balanced", "rule-based") and _valid(r))
    g = stats.get
    checks = [
        ("reaction_cnt", g("reaction_cnt") == n_in, n_in),
        ("balanced_cnt", g("balanced_cnt") == n_ib, n_ib),
        ("confident_cnt", g("confident_cnt") == n_mcs_solved, n_mcs_solved),
        ("mcs_applied", g("mcs_applied") == n_not_before, n_not_before),
        ("rb_solved<=rb_applied", g("rb_solved", 0) <= g("rb_applied", 0), None),
        ("mcs_solved<=mcs_applied", g("mcs_solved", 0) <= g("mcs_applied", 0), None),
        ("rb_solved>=rule-based rows", g("rb_solved", 0) >= n_rb, n_rb),
        ("mcs_solved>=mcs-based rows", g("mcs_solved", 0) >= n_mcs, n_mcs),
        ("confident_cnt<=mcs_solved", g("confident_cnt", 0) <= g("mcs_solved", 0), None),
    ]
    for name, ok, want in checks:
        if not ok:
            out.append(dict(sub="stats", key=["stats", name], observed=stats, expected={name: want},
                            what="stats {} disagree with rows ({}; rows say {})".format(stats, name, want)))
    return out


def _none(text, row, spec):
    return []


ORACLES = {"C01": c01, "C02": c02, "C03": c03, "C04": c04, "C18": _none}
NONTRIVIAL = {"C01": c01_nt, "C02": c02_nt, "C03": c03_nt, "C04": c04_nt, "C18": lambda t, r: None}


# ---------------------------------------------------------------------------- driver


def drive(prop, universes, seed, level="exploration", minimise=True):
    """universes: list of (name, rxn list, cfg dict, batch).  Returns a Result."""
    from mc.pool import pmap
    from mc.report import Result, Violation

    props = [prop]
    jobs, meta = [], []
    for name, rxns, cfg, batch in universes:
        for spec in make_specs(rxns, batch=batch, **cfg):
            jobs.append({"spec": spec, "props": props})
            meta.append(name)
    results = pmap("checks.pipefam:eval_spec", jobs, chunk=1, seed=seed, timeout=7200)
    hjobs = [{"first": a, "second": b, "props": props, "batch_size": bs} for a, b in CALL_HISTORIES for bs in (None, 1)]
    results += pmap("checks.pipefam:eval_history", hjobs, chunk=1, seed=seed, timeout=7200)
    meta += ["two-call histories on one fresh Balancer"] * len(hjobs)
    res = Result(level)
    n_rows = 0
    nt = set()
    per_universe = {}
    per_key = {}
    for name, r in zip(meta, results):
        n_rows += r["n"]
        per_universe[name] = per_universe.get(name, 0) + r["n"]
        for p, k in r["nontrivial"]:
            if p == prop:
                nt.add(repr(k))
        for v in r["viol"]:
            if v["prop"] in (prop, "*"):
                viol = Violation(v["sub"], v["case"], v.get("observed"), v.get("expected"),
                                 v["key"], v["what"])
                k = repr(viol.key)
                per_key[k] = per_key.get(k, 0) + 1
                if viol.case.get("history"):
                    viol.priority = 0   # localised in the worker: fails again on a fresh Balancer after this history
                if minimise and per_key[k] <= 3 and "index" in viol.case and len(viol.case["batch"]) > 1 and not viol.case.get("history"):
                    single = dict(viol.case)
                    single["batch"] = [viol.case["batch"][viol.case["index"]]]
                    single["index"] = 0
                    cand = Violation(viol.sub, single, viol.observed, viol.expected, viol.key, viol.what)
                    if replay_rows(cand, prop):
                        viol = cand
                res.add(viol)
    # Rows can fail because of what the worker's Balancer did in earlier runs (state kept on the
    # instance).  Such cases do not fail again on a fresh Balancer; find, per root cause, cases
    # that do and let the runner try those first.
    by_key = {}
    for v in res.violations:
        by_key.setdefault(repr(v.key), []).append(v)
    cands = []
    for k, vs in by_key.items():
        if len(vs) > 3:
            vs = sorted(vs, key=lambda v: len(repr(v.case)))
            step = max(1, len(vs) // 60)
            cands += vs[::step][:60]
    if cands:
        ok = pmap("checks.pipefam:confirm_job", [{"v": v.to_dict(), "prop": prop} for v in cands], chunk=1, seed=seed, timeout=7200)
        for v, good in zip(cands, ok):
            if good:
                v.priority = 0
    res.coverage = {
        "evaluations": n_rows,
        "distinct_nontrivial": len(nt),
        "pipeline_runs": len(jobs),
        "rows_per_universe": per_universe,
        "exhaustive": True,
    }
    return res


def confirm_job(job):
    from mc.report import Violation

    return bool(replay_rows(Violation.from_dict(job["v"]), job["prop"]))


def replay_rows(v, prop):
    """Re-run the recorded batch on a fresh Balancer and re-evaluate the oracle for the
    recorded row (or the whole batch for stats / row-count cases)."""
    from mc.report import Violation

    case = v.case
    if "rxns" in case:  # row-count case: the case is the spec itself
        spec = dict(case)
    else:
        spec = {"rxns": case["batch"], "threshold": case.get("threshold", 0),
                "batch_size": case.get("batch_size")}
    spec["fresh"] = True
    if case.get("history"):
        out = pipeline.run_history(case["history"], spec)
    else:
        out = pipeline.run(spec)
    r = evaluate(spec, out, [prop])
    again = []
    for w in r["viol"]:
        if w["prop"] not in (prop, "*"):
            continue
        if "index" in case and w["case"].get("index") != case["index"]:
            continue
        if w["key"] != v.key:
            continue
        again.append(Violation(w["sub"], w["case"], w.get("observed"), w.get("expected"), w["key"], w["what"]))
    return again
