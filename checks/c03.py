"""C03 — a declined reaction is returned untouched and with a reason (threshold 0).

E1 through the real pipeline; plus every (L,R) with a product-side carbon surplus."""

from checks import pipefam as pf
from mc import oracle

PROPERTY = "C03"


def universes(tier):
    us = []
    special = pf.dedupe(pf.HAND + pf.SPECIAL)
    alpha = pf.A01[:8] if tier == "quick" else pf.A01
    rx = pf.dedupe(pf.rxn_universe(alpha, 2))
    us.append(("Rxn(A01{},2)".format("[:8]" if tier == "quick" else ""), rx, {}, 25 if tier == "quick" else 40))
    for bs in ((None, 3) if tier == "quick" else (None, 1, 3)):
        us.append(("hand+special bs={}".format(bs), special, {"batch_size": bs}, 6))
    # product-side carbon surplus with larger sides
    surplus = []
    for r in pf.dedupe(pf.rxn_universe(pf.A01[:6] + ["CCCCO", "c1ccccc1"], 1) + pf.HAND):
        a, b = r.split(">>")
        rev = b + ">>" + a
        for cand in (r, rev):
            t = oracle.split_reaction(cand)
            if oracle.n_carbon(t[1]) > oracle.n_carbon(t[0]):
                surplus.append(cand)
    us.append(("carbon surplus", pf.dedupe(surplus), {}, 10))
    us.append(("size ladder", pf.dedupe(pf.LARGE), {}, 3))
    us.append(("atomic H/O reagents", pf.dedupe(pf.PLACEHOLDERS), {}, 8))
    # every hand-built / residual-imbalance reaction as a run of its own and in small batches
    singles = pf.dedupe(pf.RESIDUAL + pf.HAND)
    us.append(("single-row runs", singles, {}, 1))
    us.append(("residual imbalance, batches of 2", pf.dedupe(pf.RESIDUAL + pf.RESIDUAL[::-1]), {}, 2))
    us.append(("residual imbalance bs=1", pf.dedupe(pf.RESIDUAL), {"batch_size": 1}, 4))
    if tier == "thorough":
        corpus = [r for r in pf.corpus_reactions("reaction") if pf.in_domain(r)]
        us.append(("validation corpus", corpus, {}, 25))
    us += pf.ids_universes()
    return us


def run(tier, seed):
    us = universes(tier)
    res = pf.drive(PROPERTY, us, seed)
    res.coverage["rule"] = (
        "complete Rxn(A01,2) universe, hand-built/special families under batch sizes {None,1,3}, "
        "every reaction and reversal with a product-side carbon surplus; thorough adds the "
        "complete corpus.  Non-trivial = distinct (outcome, issue text or method, input) triples."
    )
    res.coverage["samples"] = [us[0][1][3], us[1][1][0], us[-1][1][0]]
    res.assumptions = ["default confidence threshold (0)", "rows do not pre-populate the tool's output columns"]
    return res


def replay(v):
    return pf.replay_rows(v, PROPERTY)
