"""C16 — functional-group recognition depends only on the molecular graph.

E1: bounded-exhaustive enumeration on the real matcher.

(a) renumbering: is_functional_group(M, g, i) == is_functional_group(pi(M), g, pi(i)) for
    every molecule of the universes / ring library, every non-carbon atom, every group and
    every atom renumbering of a stated finite family.
(b) pattern_match(M, i, P) (and the anchored form pattern_match(M, i, P, a)) is compared
    with a reference sub-graph matcher written here (injective, element- and
    bond-type-preserving, not induced), cross-checked against RDKit's matcher and, for
    molecules of <= 5 atoms, against a literal enumeration of all injective assignments.
(c) the same on the molecules of the validation corpus.

How the code under test reads a pattern (worked out from functional_group_utils.py and its
tests): a pattern is `MolFromSmiles(text)`; atoms are compared by `GetSymbol()` only (so
aromatic `c` and aliphatic `C` are the same element, charges / isotopes / hydrogen counts -
e.g. the H of `[nH]` - are ignored, there are no wildcards); bonds are compared by
`GetBondType()` as perceived by RDKit on the sanitised molecule (SINGLE, DOUBLE, TRIPLE,
AROMATIC are four different types: a Kekule single bond does not match an aromatic one);
atoms of M that the pattern does not mention are ignored (not an induced match); ring
patterns are meant to be rings (Test: `C1NO1` does not match `CCNO`).  The anchor atom of M
has to be the image of some pattern atom (of pattern atom `a` in the anchored form).  The
returned mapping is a list of (atom of M, atom of P) pairs.
"""

import itertools

from rdkit import Chem

from mc import universe
from mc.boot import HarnessError
from mc.pool import pmap
from mc.report import Result, Violation

PROPERTY = "C16"

# ring library: fused / non-benzenoid aromatics, small lactones and acetals, hetero-aromatic
# hydroxy compounds (where an unfolded ring pattern can be laid along a different ring)
RING_LIBRARY = [
    # charged / isotope-labelled atoms inside an occurrence on a fused aromatic system
    "[O-]c1ccc2ccccc2c1", "[NH3+]c1ccc2ccccc2c1", "[18OH]c1ccc2ccccc2c1", "[O-]c1cccc2ccccc12", "[2H]Oc1ccc2ccccc2c1",
    "[15NH2]c1ccc2ccccc2c1", "[O-]c1ccc2cccccc12",
    # hypervalent S / P with five and six neighbours (neighbour enumeration beyond 4), in two atom orders
    "CS(C)(F)(F)(F)F", "FS(F)(F)(F)(C)C", "CS(F)(F)(F)(F)F", "FS(F)(F)(F)(F)C", "CP(F)(F)(F)F", "FP(F)(F)(F)C",
    "COP(Cl)(Cl)(Cl)Cl", "ClP(Cl)(Cl)(Cl)OC", "CS(C)(C)(C)(C)C", "CSC(=O)S(F)(F)(F)(F)C", "FS(F)(F)(F)(C)C(=O)SC",
    "Oc1cc2cccccc2c1",        # azulen-2-ol
    "Oc1ccc2cccccc12",        # azulen-1-ol
    "Oc1ccccc2cccc12",        # azulen-4-ol
    "Oc1ccc2ccccc2c1",        # 2-naphthol
    "Oc1cccc2ccccc12",        # 1-naphthol
    "COc1ccc2ccccc2c1",       # 2-methoxynaphthalene
    "Oc1ccccc1",              # phenol
    "COc1ccccc1",             # anisole
    "Nc1ccccc1",              # aniline
    "Nc1ccc2ccccc2c1",        # 2-naphthylamine
    "O=C1CO1",                # alpha-lactone
    "O=C1CCO1",               # beta-propiolactone
    "O=C1CCCO1",              # gamma-butyrolactone
    "O=C1CCCCO1",             # delta-valerolactone
    "CC1OC1=O",               # methyl alpha-lactone
    "C1OCO1",                 # 1,3-dioxetane
    "C1COCO1",                # 1,3-dioxolane
    "C1COCCO1",               # 1,4-dioxane
    "C1OCOCO1",               # 1,3,5-trioxane
    "CC1OCO1",                # methyl dioxetane
    "O=C1OCO1",               # dioxetanone
    "O=C1OC(=O)C1",           # malonic anhydride
    "O=C1CCC(=O)O1",          # succinic anhydride
    "O=C1NC(=O)O1",           # cyclic carbamate/imide
    "O=C1NCO1",               # oxazetidinone
    "O=C1NCCO1",              # oxazolidinone
    "O=C1OCCO1",              # ethylene carbonate
    "Oc1cc2ccccc2[nH]1",      # indol-2-ol
    "Oc1c[nH]c2ccccc12",      # indol-3-ol
    "Oc1ccc2[nH]ccc2c1",      # indol-5-ol
    "Oc1ccc[nH]1",            # 2-hydroxypyrrole
    "COc1ccc[nH]1",           # 2-methoxypyrrole
    "Oc1cc[nH]c1",            # 3-hydroxypyrrole
    "Oc1ccccn1",              # 2-hydroxypyridine
    "Oc1cccnc1",              # 3-hydroxypyridine
    "Oc1ccncc1",              # 4-hydroxypyridine
    "Oc1cccnc1O",             # 2,3-dihydroxypyridine
    "COc1cccnc1OC",           # 2,3-dimethoxypyridine
    "COc1cc2cccccc2c1",       # 2-methoxyazulene
    "COc1cccccc1=O",          # 2-methoxytropone
    "COc1ccccn1",             # 2-methoxypyridine
    "O=c1cccc[nH]1",          # 2-pyridone
    "Nc1ccccn1",              # 2-aminopyridine
    "Nc1cccccc1=O",           # 2-aminotropone
    "Nc1ccccc(=O)c1",         # 3-aminotropone
    "Nc1cccc(=O)cc1",         # 4-aminotropone
    "O=c1cccccc1O",           # tropolone
    "c1ccc2ccccc2c1",         # naphthalene
    "c1ccc2cccc2cc1",         # azulene
    "C1=CC=CC=C1",            # written Kekule (re-perceived aromatic)
    "OC1=CCCCC1",             # cyclohexenol
    "OC1CCCCC1",              # cyclohexanol
    "C1CC1O",                 # cyclopropanol
    "OC1OC1",                 # oxiranol
    "NC1OC1",                 # aminooxirane
    "SC1OC1=O",
    "O=C1SCO1",
    "S=C1OCO1",
    "CSC1OC1",
]

MAX_CASES_PER_KEY = 20


# ----------------------------------------------------------------------------- graphs


class G:
    """Plain labelled graph of an RDKit molecule (elements by atomic number, bonds by type
    name).  Hydrogens count only when they are atoms of the graph."""

    def __init__(self, mol):
        self.n = mol.GetNumAtoms()
        self.Z = [a.GetAtomicNum() for a in mol.GetAtoms()]
        self.bond = {}
        self.blist = []
        self.nbrs = [[] for _ in range(self.n)]
        for b in mol.GetBonds():
            i, j, t = b.GetBeginAtomIdx(), b.GetEndAtomIdx(), str(b.GetBondType())
            self.bond[(i, j)] = t
            self.bond[(j, i)] = t
            self.blist.append((i, j, t))
            self.nbrs[i].append(j)
            self.nbrs[j].append(i)

    def signature(self):
        return (tuple(self.Z), tuple(self.blist))

    def search_order(self):
        """pattern atoms in BFS order with the parent each one hangs on (None = new
        component) - only an enumeration order, it does not change what is found"""
        order, parent, seen = [], {}, set()
        for root in range(self.n):
            if root in seen:
                continue
            seen.add(root)
            parent[root] = None
            queue = [root]
            while queue:
                p = queue.pop(0)
                order.append(p)
                for q in self.nbrs[p]:
                    if q not in seen:
                        seen.add(q)
                        parent[q] = p
                        queue.append(q)
        return order, parent

    def ring_bonds(self):
        """bonds whose removal keeps their ends connected"""
        out = set()
        for (i, j, _t) in self.blist:
            seen, stack = {i}, [i]
            while stack:
                p = stack.pop()
                for q in self.nbrs[p]:
                    if (p, q) in ((i, j), (j, i)):
                        continue
                    if q not in seen:
                        seen.add(q)
                        stack.append(q)
            if j in seen:
                out.add((i, j))
                out.add((j, i))
        return out


def occurrences(g, p):
    """Reference matcher: the set of (atom of M, atom of P) pairs over all injective,
    element- and bond-type-preserving maps P -> M (every pattern bond has an image bond of
    the same type; extra atoms and bonds of M are allowed)."""
    order, parent = p.search_order()
    k = len(order)
    pairs = set()
    f = {}
    used = set()
    n_occ = [0]

    def rec(d):
        if d == k:
            n_occ[0] += 1
            for q, c in f.items():
                pairs.add((c, q))
            return
        q = order[d]
        cands = range(g.n) if parent[q] is None else g.nbrs[f[parent[q]]]
        for c in cands:
            if c in used or g.Z[c] != p.Z[q]:
                continue
            ok = True
            for r in p.nbrs[q]:
                if r in f and g.bond.get((c, f[r])) != p.bond[(q, r)]:
                    ok = False
                    break
            if ok:
                f[q] = c
                used.add(c)
                rec(d + 1)
                del f[q]
                used.discard(c)

    if k <= g.n:
        rec(0)
    return pairs, n_occ[0]


def occurrences_literal(g, p):
    """All injective assignments, literally (small molecules only)."""
    pairs = set()
    for img in itertools.permutations(range(g.n), p.n):
        if any(g.Z[img[q]] != p.Z[q] for q in range(p.n)):
            continue
        if any(g.bond.get((img[a], img[b])) != t for a, b, t in p.blist):
            continue
        for q in range(p.n):
            pairs.add((img[q], q))
    return pairs


_BT = {
    "SINGLE": Chem.BondType.SINGLE,
    "DOUBLE": Chem.BondType.DOUBLE,
    "TRIPLE": Chem.BondType.TRIPLE,
    "AROMATIC": Chem.BondType.AROMATIC,
}


def rdkit_query(p):
    """The pattern as an (unsanitised) RDKit molecule built from its graph: RDKit compares
    non-query atoms by atomic number and non-query bonds by bond type."""
    rw = Chem.RWMol()
    arom = set()
    for a, b, t in p.blist:
        if t == "AROMATIC":
            arom.update((a, b))
    for q in range(p.n):
        at = Chem.Atom(p.Z[q])
        at.SetNoImplicit(True)
        if q in arom:
            at.SetIsAromatic(True)
        rw.AddAtom(at)
    for a, b, t in p.blist:
        if t not in _BT:
            return None
        rw.AddBond(a, b, _BT[t])
        if t == "AROMATIC":
            rw.GetBondBetweenAtoms(a, b).SetIsAromatic(True)
    return rw.GetMol()


def occurrences_rdkit(mol, query):
    pairs = set()
    for t in mol.GetSubstructMatches(query, uniquify=False, maxMatches=10000000):
        for q, c in enumerate(t):
            pairs.add((c, q))
    return pairs


# ----------------------------------------------------------------------------- patterns

_PATTERNS = None


class Pat:
    pass


def patterns():
    """Every distinct structure the group table hands to pattern_match: patterns, group
    cores and anti-patterns (distinct = same atom sequence and same bond sequence)."""
    global _PATTERNS
    if _PATTERNS is not None:
        return _PATTERNS
    from synrbl.SynUtils.functional_group_utils import functional_group_config as cfg

    out, seen = [], {}
    for gname in cfg:
        c = cfg[gname]
        for role in ("pattern", "groups", "anti_pattern"):
            for k, m in enumerate(getattr(c, role)):
                pg = G(m)
                sig = pg.signature()
                if sig in seen:
                    seen[sig].refs.append([gname, role, k])
                    continue
                p = Pat()
                p.mol, p.g, p.refs = m, pg, [[gname, role, k]]
                p.n, p.Z, p.blist = pg.n, pg.Z, pg.blist
                p.query = rdkit_query(pg)
                try:
                    p.label = Chem.MolToSmiles(Chem.Mol(m))
                except Exception:
                    p.label = Chem.MolToSmiles(p.query)
                p.ring = pg.ring_bonds()
                seen[sig] = p
                out.append(p)
    _PATTERNS = out
    return out


def find_pattern(ref, label):
    for p in patterns():
        if ref in p.refs and p.label == label:
            return p
    for p in patterns():
        if p.label == label:
            return p
    return None


# ----------------------------------------------------------------------------- verdicts


def _norm_match(match):
    try:
        return sorted({(int(a), int(b)) for a, b in match})
    except Exception:
        return None


def diagnose(g, p, match, atom, anchor):
    """None when `match` is an occurrence of P in M that contains `atom` (as the image of
    pattern atom `anchor` when given); otherwise the root cause, read off the mapping."""
    rel = _norm_match(match)
    if rel is None:
        return "malformed-mapping"
    img = {}
    for c, q in rel:
        if not (0 <= c < g.n and 0 <= q < p.n):
            return "malformed-mapping"
        img.setdefault(q, set()).add(c)
    if set(img) != set(range(p.n)):
        return "incomplete-mapping"
    if any(len(v) > 1 for v in img.values()):
        # one pattern atom, reached along two branches of the unfolded pattern, has two
        # images: only possible when the pattern has a ring whose closure was not checked
        return "ring-closure" if p.ring else "inconsistent-mapping"
    f = {q: next(iter(v)) for q, v in img.items()}
    if len(set(f.values())) < p.n:
        return "non-injective"
    if any(g.Z[f[q]] != p.Z[q] for q in range(p.n)):
        return "element-mismatch"
    for a, b, t in p.blist:
        if g.bond.get((f[a], f[b])) != t:
            return "ring-closure" if (a, b) in p.ring else "bond-mismatch"
    if anchor is None:
        if atom not in f.values():
            return "anchor-not-in-mapping"
    elif f[anchor] != atom:
        return "anchor-not-in-mapping"
    return None


def call_impl(mol, atom, pmol, anchor):
    from synrbl.SynUtils.functional_group_utils import pattern_match

    try:
        if anchor is None:
            r = pattern_match(mol, atom, pmol)
        else:
            r = pattern_match(mol, atom, pmol, anchor)
        return bool(r[0]), r[1], None
    except Exception as e:  # the matcher has no documented refusals
        return None, None, type(e).__name__


def judge(g, p, atom, anchor, got, match, exc, pairs):
    """-> None or (sub, cause)"""
    want = (
        any(c == atom for c, _q in pairs) if anchor is None else (atom, anchor) in pairs
    )
    if exc is not None:
        return ("exception", "exception:" + exc), want
    if got and not want:
        cause = diagnose(g, p, match, atom, anchor)
        if cause is None:
            raise HarnessError(
                "reference matcher missed a valid occurrence: atom {} pattern {} "
                "mapping {}".format(atom, p.label, match)
            )
        return ("false_positive", cause), want
    if want and not got:
        return ("false_negative", "false-negative"), want
    if got:
        cause = diagnose(g, p, match, atom, anchor)
        if cause is not None:
            return ("mapping", cause), want
    return None, want


def reference_pairs(mol, g, p, cross):
    pairs, _n = occurrences(g, p.g)
    if cross:
        if p.query is not None:
            rd = occurrences_rdkit(mol, p.query)
            if rd != pairs:
                raise HarnessError(
                    "reference matcher and RDKit disagree on {} in {}: {} vs {}".format(
                        p.label, Chem.MolToSmiles(mol), sorted(pairs), sorted(rd)
                    )
                )
        if g.n <= 5:
            lit = occurrences_literal(g, p.g)
            if lit != pairs:
                raise HarnessError(
                    "reference matcher and literal enumeration disagree on {} in {}".format(
                        p.label, Chem.MolToSmiles(mol)
                    )
                )
    return pairs


def match_case(item):
    """worker: one molecule, every atom, every pattern (+ every pattern anchor when
    item[0] says so).  Returns counters and the failing cases."""
    anchored, smiles = item
    mol = Chem.MolFromSmiles(smiles)
    if mol is None:
        return None
    g = G(mol)
    n_eval = n_true = n_rd = 0
    triples = set()
    bad = []
    for p in patterns():
        pairs = reference_pairs(mol, g, p, True)
        n_rd += 1
        anchors = [None] + (list(range(p.g.n)) if anchored else [])
        for atom in range(g.n):
            for anchor in anchors:
                if anchor is not None and g.Z[atom] != p.g.Z[anchor]:
                    # different element: this pair is still exercised by the un-anchored
                    # call, which tries every pattern atom
                    continue
                got, match, exc = call_impl(mol, atom, p.mol, anchor)
                n_eval += 1
                verdict, want = judge(g, p, atom, anchor, got, match, exc, pairs)
                if got or want:
                    n_true += 1
                    triples.add((atom, p.label))
                if verdict is not None:
                    bad.append({
                        "sub": verdict[0], "cause": verdict[1], "smiles": smiles,
                        "natoms": g.n, "atom": atom, "anchor": anchor,
                        "pattern": p.label, "ref": p.refs[0],
                        "got": got, "want": want, "mapping": _norm_match(match) if got else None,
                    })
    return {"n": n_eval, "true": n_true, "triples": len(triples), "pairs": n_rd, "bad": bad}


# ----------------------------------------------------------------------------- renumbering


def variant(mol, spec):
    """(renumbered molecule, position of every old atom in it).

    ["renumber", perm]  RDKit RenumberAtoms: new atom k is old atom perm[k]
    ["reparse", perm]   the renumbered molecule written as non-canonical SMILES and parsed
                        again (atom *and* bond order follow the new spelling)
    ["rooted", r]       non-canonical SMILES rooted at atom r, parsed again
    """
    kind, arg = spec
    n = mol.GetNumAtoms()
    if kind == "renumber":
        pm = Chem.RenumberAtoms(mol, [int(x) for x in arg])
        pos = [0] * n
        for k, old in enumerate(arg):
            pos[old] = k
        return pm, pos
    tagged = Chem.Mol(mol)
    for a in tagged.GetAtoms():
        a.SetAtomMapNum(a.GetIdx() + 1)
    if kind == "reparse":
        tagged = Chem.RenumberAtoms(tagged, [int(x) for x in arg])
        text = Chem.MolToSmiles(tagged, canonical=False)
    elif kind == "rooted":
        text = Chem.MolToSmiles(tagged, canonical=False, rootedAtAtom=int(arg))
    else:
        raise HarnessError("unknown renumbering " + repr(spec))
    pm = Chem.MolFromSmiles(text)
    if pm is None or pm.GetNumAtoms() != n:
        return None, None
    pos = [0] * n
    for a in pm.GetAtoms():
        pos[a.GetAtomMapNum() - 1] = a.GetIdx()
        a.SetAtomMapNum(0)
    return pm, pos


def renumberings(n, all_upto, reparse_upto, full=True):
    """The finite renumbering family of a molecule of n atoms.

    n <= all_upto      all n! index permutations by RenumberAtoms
    n <= reparse_upto  all n! permuted molecules written as SMILES and parsed again
    above those bounds every rotation of the index order, its reversal, the spelling
                       rooted at every atom and the reversed spelling (full) or only the
                       reversal and the reversed spelling (not full)
    """
    ident = list(range(n))
    out = []
    if n <= all_upto:
        perms = [list(p) for p in itertools.permutations(range(n))]
        out += [["renumber", p] for p in perms]
        if n <= reparse_upto:
            out += [["reparse", p] for p in perms]
    else:
        if full:
            for s in range(1, n):
                out.append(["renumber", ident[s:] + ident[:s]])
        out.append(["renumber", ident[::-1]])
    if n > reparse_upto:
        if full:
            out += [["rooted", r] for r in range(n)]
        out.append(["reparse", ident[::-1]])
    return out


def ask_group(mol, name, idx):
    from synrbl.SynUtils.functional_group_utils import is_functional_group

    try:
        return bool(is_functional_group(mol, name, idx))
    except Exception as e:
        return "raises " + type(e).__name__


def ask_rule(mol, name, idx):
    """the same question as the merge / expansion rule conditions ask it: the functional
    group of the neighbour atom `idx` (in the source molecule) of a fragment's boundary"""
    from synrbl.SynMCSImputer.rules import FunctionalGroupProperty
    from synrbl.SynMCSImputer.structure import Compound

    try:
        c = Compound("C", src_mol=mol)
        b = c.add_boundary(0, symbol="C", neighbor_index=idx)
        pos, neg = FunctionalGroupProperty([name])(b), FunctionalGroupProperty(["!" + name])(b)
        if bool(pos) == bool(neg):
            return "inconsistent (positive {} / negated {})".format(pos, neg)
        return bool(pos)
    except Exception as e:
        return "raises " + type(e).__name__


def group_names():
    from synrbl.SynUtils.functional_group_utils import functional_group_config as cfg

    return list(cfg)


def renumber_case(item):
    """worker: one molecule, every renumbering of the family, every non-carbon atom,
    every group"""
    all_upto, reparse_upto, full, smiles = item
    mol = Chem.MolFromSmiles(smiles)
    if mol is None:
        return None
    n = mol.GetNumAtoms()
    atoms = [a.GetIdx() for a in mol.GetAtoms() if a.GetSymbol() not in ("C", "H")]
    names = group_names()
    if not atoms:
        return {"n": 0, "forms": 0, "pos": 0, "skipped": 0, "bad": []}
    base = {(name, i): ask_group(mol, name, i) for name in names for i in atoms}
    n_pos = sum(1 for v in base.values() if v is True)
    n_eval = len(base)
    bad = []
    for (name, i), v in sorted(base.items()):
        if v is not True and v is not False:
            bad.append({"sub": "exception", "smiles": smiles, "natoms": n, "atom": i,
                        "group": name, "spec": None, "base": v, "got": v})
        else:
            via = ask_rule(mol, name, i)
            n_eval += 1
            if via != v:
                bad.append({"sub": "rule-condition", "smiles": smiles, "natoms": n, "atom": i,
                            "group": name, "spec": None, "base": v, "got": via})
    seen = set()
    base_g = G(mol)
    base_sig = base_g.signature()
    n_skipped = 0
    for spec in renumberings(n, all_upto, reparse_upto, full):
        pm, pos = variant(mol, spec)
        if pm is None:
            continue
        pg = G(pm)
        if any(pg.bond.get((pos[a], pos[b])) != t for a, b, t in base_g.blist) or len(
            pg.blist
        ) != len(base_g.blist):
            # RDKit perceived the re-parsed spelling differently: not the same graph
            n_skipped += 1
            continue
        sig = pg.signature()
        for i in atoms:
            # the same atom/bond sequence asked at the same index is the same call
            if (sig, pos[i]) in seen or (sig == base_sig and pos[i] == i):
                continue
            seen.add((sig, pos[i]))
            for name in names:
                got = ask_group(pm, name, pos[i])
                n_eval += 1
                if got != base[(name, i)]:
                    bad.append({"sub": "renumbering", "smiles": smiles, "natoms": n,
                                "atom": i, "group": name, "spec": spec,
                                "base": base[(name, i)], "got": got})
                elif got is True or pos[i] == 0:
                    # the rule-condition layer on top: every positive answer, and every answer for
                    # the atom that the renumbering puts first
                    via = ask_rule(pm, name, pos[i])
                    n_eval += 1
                    if via != got:
                        bad.append({"sub": "rule-condition", "smiles": smiles, "natoms": n,
                                    "atom": i, "group": name, "spec": spec,
                                    "base": got, "got": via})
    return {"n": n_eval, "forms": len({s for s, _ in seen}), "pos": n_pos,
            "skipped": n_skipped, "bad": bad}


# ----------------------------------------------------------------------------- run


def _uniq(seq):
    seen, out = set(), []
    for s in seq:
        if s not in seen:
            seen.add(s)
            out.append(s)
    return out


def _canon_lib():
    out = []
    for s in RING_LIBRARY:
        m = Chem.MolFromSmiles(s)
        if m is None:
            raise HarnessError("ring library entry does not parse: " + s)
        out.append(Chem.MolToSmiles(m))
    return _uniq(out)


def spaces(tier):
    """(base universes, larger universe of the thorough tier, ring library, corpus) -
    pairwise disjoint lists of canonical SMILES"""
    base = _uniq(list(universe.U(["C", "N", "O", "S"], 4)) + list(universe.U(["C", "N", "O"], 5)))
    seen = set(base)
    extra = []
    if tier == "thorough":
        extra = [s for s in universe.U(["C", "N", "O", "S"], 5) if s not in seen]
        seen.update(extra)
    lib = [s for s in _canon_lib() if s not in seen]
    seen.update(lib)
    corpus = list(universe.corpus_molecules())
    if tier != "thorough":
        corpus = corpus[::10]
    corpus = [s for s in _uniq(corpus) if s not in seen]
    return base, extra, lib, corpus


def _mk_match_violation(b):
    key = [b["cause"], b["pattern"]]
    case = {"smiles": b["smiles"], "atom": b["atom"], "pattern": b["pattern"],
            "pattern_ref": b["ref"], "pattern_anchor": b["anchor"]}
    call = "pattern_match({}, {}, {}{})".format(
        b["smiles"], b["atom"], b["pattern"],
        "" if b["anchor"] is None else ", " + str(b["anchor"]))
    if b["sub"] == "false_positive":
        what = "{} is True with mapping {} but the pattern does not occur there ({})".format(
            call, b["mapping"], b["cause"])
    elif b["sub"] == "false_negative":
        what = "{} is False but the pattern occurs at that atom".format(call)
    elif b["sub"] == "mapping":
        what = "{} is rightly True but its mapping {} is not an occurrence ({})".format(
            call, b["mapping"], b["cause"])
    else:
        what = "{} {}".format(call, b["cause"])
    return Violation("pattern_match." + b["sub"], case,
                     {"match": b["got"], "mapping": b["mapping"]},
                     {"match": b["want"]}, key, what)


def _mk_renumber_violation(b):
    case = {"smiles": b["smiles"], "atom": b["atom"], "group": b["group"], "spec": b["spec"]}
    if b["sub"] == "exception":
        key = ["exception", b["group"]]
        what = "is_functional_group({}, {}, {}) {}".format(
            b["smiles"], b["group"], b["atom"], b["got"])
    elif b["sub"] == "rule-condition":
        key = ["rule-condition", b["group"]]
        what = ("is_functional_group({}, {}, {}){} is {} but the rule condition functional_group=[{}] on a boundary "
                "whose neighbour is that atom answers {}").format(
            b["smiles"], b["group"], b["atom"], "" if b["spec"] is None else " after renumbering {}".format(b["spec"]),
            b["base"], b["group"], b["got"])
    else:
        key = ["renumbering", b["group"]]
        what = "is_functional_group({}, {}, {}) is {} but {} after renumbering {}".format(
            b["smiles"], b["group"], b["atom"], b["base"], b["got"], b["spec"])
    return Violation("group." + b["sub"], case, b["got"], b["base"], key, what)


def run(tier, seed):
    res = Result("exploration")
    base, extra, lib, corpus = spaces(tier)
    small = base + extra
    # renumbering family: (all n! RenumberAtoms up to, all n! re-parsed spellings up to)
    fam = (5, 4, True) if tier == "thorough" else (4, 3, True)
    fam_extra = (4, 4, False)

    # (b) + (c): soundness / completeness of pattern_match
    items = ([(True, s) for s in base + lib] + [(False, s) for s in extra]
             + [(False, s) for s in corpus])
    rb = pmap("checks.c16:match_case", items, chunk=40, seed=seed)
    # (a): renumbering invariance of is_functional_group
    ritems = ([fam + (s,) for s in base] + [fam_extra + (s,) for s in extra]
              + [fam + (s,) for s in lib])
    ra = pmap("checks.c16:renumber_case", ritems, chunk=10, seed=seed)

    bad = []
    n_match = n_true = n_pairs = n_mols = n_triples = 0
    for r in rb:
        if r is None:
            continue
        n_mols += 1
        n_match += r["n"]
        n_true += r["true"]
        n_triples += r["triples"]
        n_pairs += r["pairs"]
        bad.extend(r["bad"])
    n_group = n_forms = n_pos = n_skipped = 0
    rbad = []
    for r in ra:
        if r is None:
            continue
        n_group += r["n"]
        n_forms += r["forms"]
        n_pos += r["pos"]
        n_skipped += r["skipped"]
        rbad.extend(r["bad"])

    # smallest witness of every root cause first; a bounded number of cases per root cause
    # becomes a Violation, all of them are counted
    by_key = {}
    bad.sort(key=lambda b: (b["cause"], b["pattern"], b["natoms"], len(b["smiles"]),
                            b["smiles"], b["atom"], -1 if b["anchor"] is None else b["anchor"],
                            b["sub"]))
    for b in bad:
        k = (b["cause"], b["pattern"])
        e = by_key.setdefault(k, {"cases": 0, "false_positive": 0, "false_negative": 0,
                                  "mapping": 0, "exception": 0, "molecules": set(),
                                  "smallest": b["smiles"]})
        e["cases"] += 1
        e[b["sub"]] += 1
        e["molecules"].add(b["smiles"])
        if e["cases"] <= MAX_CASES_PER_KEY:
            res.add(_mk_match_violation(b))
    rbad.sort(key=lambda b: (b["sub"], b["group"], b["natoms"], len(b["smiles"]), b["smiles"],
                             b["atom"], repr(b["spec"])))
    rcount = {}
    for b in rbad:
        k = (b["sub"], b["group"])
        rcount[k] = rcount.get(k, 0) + 1
        if rcount[k] <= MAX_CASES_PER_KEY:
            res.add(_mk_renumber_violation(b))

    n_pat = len(patterns_in_parent())
    res.coverage = {
        "evaluations": n_match + n_group,
        "distinct_nontrivial": n_triples + n_pos,
        "rule": (
            "Molecules: U(C,N,O,S;4) u U(C,N,O;5){} ({} molecules), a ring library of {} "
            "molecules, {} ({} molecules); parsed by RDKit from SMILES, implicit hydrogens, "
            "RDKit's aromaticity perception. (b,c) every atom x every distinct structure of the "
            "group table ({} = patterns, group cores and anti-patterns, distinct atom/bond "
            "sequences) through pattern_match without pattern anchor, and for U(C,N,O,S;4), "
            "U(C,N,O;5) and the ring library also with every pattern anchor of the atom's "
            "element, against the "
            "reference: an injective map of pattern atoms to atoms of M that preserves the "
            "element (atomic number; aromatic and aliphatic atoms alike, charges, isotopes and "
            "hydrogen counts ignored - the code compares GetSymbol only, patterns carry none) "
            "and maps every pattern bond onto a bond of the same RDKit bond type (single, "
            "double, triple, aromatic are four types; not an induced match), with the asked "
            "atom in the image (as image of the anchor when one is given). The reference pair "
            "sets are equal to RDKit's GetSubstructMatches(uniquify=False) on every (molecule, "
            "pattern) and to the literal enumeration of all injective assignments for "
            "molecules of <= 5 atoms (a disagreement is a harness error). Returned mappings of "
            "true answers are validated as occurrences. Non-trivial pattern case = distinct "
            "(molecule, atom, pattern graph) where the code or the reference said True in some "
            "form of the call. (a) every non-carbon atom x {} groups x renumberings: all n! by "
            "RenumberAtoms for n <= {} atoms (otherwise every rotation of the index order and "
            "its reversal) and all n! renumbered molecules written as non-canonical SMILES and "
            "parsed again for n <= {} atoms (otherwise the spelling rooted at every atom and "
            "the reversed one){}; identical atom/bond sequences asked at the same index are "
            "evaluated once. Non-trivial group case = distinct (molecule, atom, group) that is "
            "in the group. distinct_nontrivial is the sum of the two.".format(
                " u U(C,N,O,S;5)" if tier == "thorough" else "", len(small), len(lib),
                "every validation-corpus molecule" if tier == "thorough"
                else "every 10th validation-corpus molecule (sorted list, offset 0)",
                len(corpus), n_pat, len(group_names_in_parent()), fam[0], fam[1],
                " (for the molecules only in U(C,N,O,S;5): all n! of both kinds for n <= 4, the "
                "reversed index order and the reversed spelling for n = 5)"
                if extra else "")),
        "samples": [
            {"pattern_match": [small[len(small) // 2], 0, patterns_in_parent()[0]]},
            {"pattern_match": [lib[0], 0, patterns_in_parent()[-1]]},
            {"pattern_match": [corpus[len(corpus) // 2], 0, patterns_in_parent()[1]]},
            {"is_functional_group": ["NC(=O)O", "urea", 0, ["reparse", [3, 2, 1, 0]]]},
        ],
        "molecules": n_mols,
        "pattern_structures": n_pat,
        "pattern_match_calls": n_match,
        "pattern_calls_true_on_either_side": n_true,
        "pattern_triples_true_on_either_side": n_triples,
        "reference_cross_checks_rdkit": n_pairs,
        "group_queries": n_group,
        "group_positive_base_cases": n_pos,
        "distinct_renumbered_forms": n_forms,
        "renumbered_forms_skipped_rdkit_perceives_other_bond_types": n_skipped,
        "failing_cases": len(bad) + len(rbad),
        "root_causes": [
            {"key": [k[0], k[1]], "cases": e["cases"], "molecules": len(e["molecules"]),
             "false_positive": e["false_positive"], "false_negative": e["false_negative"],
             "bad_mapping_of_true_answer": e["mapping"], "smallest": e["smallest"]}
            for k, e in sorted(by_key.items())
        ],
        "exhaustive": True,
    }
    res.assumptions = [
        "RDKit's SMILES parser, sanitisation and aromaticity perception define the molecular "
        "graph and its bond types; RDKit's substructure matcher is the second reference",
        "molecules carry implicit hydrogens (as Compound.mol / src_mol do in the rule engine)",
    ]
    return res


def patterns_in_parent():
    from mc import boot

    boot.boot()
    return [p.label for p in patterns()]


def group_names_in_parent():
    from mc import boot

    boot.boot()
    return group_names()


# ----------------------------------------------------------------------------- replay


def replay(v):
    out = []
    c = v.case
    mol = Chem.MolFromSmiles(c["smiles"])
    if mol is None:
        raise HarnessError("replay molecule does not parse: " + c["smiles"])
    if v.sub.startswith("pattern_match."):
        p = find_pattern(c["pattern_ref"], c["pattern"])
        if p is None:
            return out  # the structure is no longer part of the group table
        g = G(mol)
        pairs = reference_pairs(mol, g, p, True)
        got, match, exc = call_impl(mol, c["atom"], p.mol, c["pattern_anchor"])
        verdict, want = judge(g, p, c["atom"], c["pattern_anchor"], got, match, exc, pairs)
        if verdict is not None:
            out.append(_mk_match_violation({
                "sub": verdict[0], "cause": verdict[1], "smiles": c["smiles"],
                "natoms": g.n, "atom": c["atom"], "anchor": c["pattern_anchor"],
                "pattern": p.label, "ref": c["pattern_ref"], "got": got, "want": want,
                "mapping": _norm_match(match) if got else None}))
    elif v.sub.startswith("group."):
        base = ask_group(mol, c["group"], c["atom"])
        if c["spec"] is None:
            got = base
            failed = base is not True and base is not False
            sub = "exception"
        else:
            pm, pos = variant(mol, c["spec"])
            if pm is None:
                return out
            pg, bg = G(pm), G(mol)
            if any(pg.bond.get((pos[a], pos[b])) != t for a, b, t in bg.blist):
                return out
            got = ask_group(pm, c["group"], pos[c["atom"]])
            failed = got != base
            sub = "renumbering"
        if v.sub == "group.rule-condition":
            pm, at = mol, c["atom"]
            if c["spec"] is not None:
                pm, pos = variant(mol, c["spec"])
                at = pos[c["atom"]]
            got = ask_rule(pm, c["group"], at)
            base = ask_group(pm, c["group"], at)
            failed = got != base
            sub = "rule-condition"
        if failed:
            out.append(_mk_renumber_violation({
                "sub": sub, "smiles": c["smiles"], "natoms": mol.GetNumAtoms(),
                "atom": c["atom"], "group": c["group"], "spec": c["spec"],
                "base": base, "got": got}))
    return out
