"""C07 — element, hydrogen and charge accounting of a SMILES is exact.

E1: bounded-exhaustive enumeration against the independent composition `oracle.comp`.
"""

import itertools

from rdkit import Chem

from mc import oracle, universe
from mc.pool import pmap
from mc.report import Result, Violation

PROPERTY = "C07"
_PT = Chem.GetPeriodicTable()

MIX_ALPHABET = [
    "C", "O", "N", "CC", "CO", "C=O", "CC(=O)O", "CC(=O)[O-]", "[Na+]", "[Cl-]",
    "[H][H]", "[H+]", "[H-]", "[2H]O", "[13CH4]", "C[N+](C)(C)C", "[NH3+]CC(=O)[O-]",
    "c1ccccc1", "c1ccncc1", "c1cc[nH]c1", "O=C=O", "[C-]#[O+]", "N#N", "Cl", "ClCl",
    "[Mg+2]", "[O-]S(=O)(=O)[O-]", "CS(C)=O", "CP(C)(C)=O", "B(O)(O)c1ccccc1",
    "C[Si](C)(C)C", "[U]", "[Th]", "[Og]", "F[U](F)(F)(F)(F)F", "[Fe]", "C[Mg]Br",
    "[Li]CCCC", "[O]", "[CH3]",
]


def element_forms():
    out = []
    for z in range(1, 119):
        s = _PT.GetElementSymbol(z)
        a = int(round(_PT.GetAtomicWeight(z)))
        for f in (
            "[{s}]", "[{s}H]", "[{s}H2]", "[{s}+]", "[{s}-]", "[{s}+2]", "[{s}-2]",
            "[{a}{s}]", "[{a}{s}H+]", "C[{s}]", "[{s}]=O", "[{s}].[{s}]", "[{s}+].[Cl-]",
        ):
            out.append(f.format(s=s, a=a))
    return out


# valid SMILES in which a bond is written with a ring-closure digit across a dot (C1.C1 is ethane)
DOT_CLOSURE = ["C1.C1", "C1.N1", "C%12.O%12", "C1.C1.O", "O.C1.C1", "[Na+].C1.[Cl-].O1", "C12.C1.O2", "c1ccccc1C2.N2",
               "CC(=O)O1.C1C", "[CH2:1]1.[OH:2]1", "C1.C1.C2.N2"]


def size_ladder():
    """the same repeat units at sizes around typical shortcut thresholds"""
    units = [("C", "[C@H](C)C", ""), ("O", "[SiH2]O", ""), ("", "N[C@@H](C)C(=O)", "O"), ("", "[NH3+]CC(=O)[O-].", "O"),
             ("", "c1cc[nH]c1.", "C"), ("", "C", ""), ("O", "CCO", ""), ("[2H]", "C([2H])", "[2H]"), ("", "[Na+].[Cl-].", "O")]
    ns = [1, 2, 3, 5, 8, 13, 21, 34, 55, 63, 64, 65, 89, 127, 128, 129, 144, 200, 255, 256, 257, 300, 400]
    big = [999, 1000, 1001, 1023, 1024, 1025, 2048, 4097]
    return [a + u * n + z for a, u, z in units for n in ns] + [a + u * n + z for a, u, z in (units[1], units[5], units[6], units[8]) for n in big]


def carbon_ladder():
    """sides with n carbon atoms as one chain / as n/2 molecules / as n methanes, n around powers of two and of ten"""
    ns = [1, 2, 9, 10, 11, 63, 64, 65, 99, 100, 101, 127, 128, 129, 255, 256, 257, 511, 512, 513, 999, 1000, 1001, 1002,
          1023, 1024, 1025, 1500, 2047, 2048, 2049, 4095, 4096, 4097, 9999, 10000, 10001]
    forms = [lambda n: "C" * n, lambda n: ".".join(["CC"] * (n // 2) + (["C"] if n % 2 else [])), lambda n: ".".join(["C"] * n),
             lambda n: "O" + "C" * n + "O"]
    pairs = []
    for n in ns:
        for f in forms:
            for g in forms[:2]:
                for m in (n, n + 1, n - 1):
                    if m >= 1:
                        pairs.append((f(n), g(m)))
    return pairs


def decomp_case(smiles):
    """worker: compare RSMIDecomposer.decompose with the reference composition"""
    from synrbl.SynProcessor import RSMIDecomposer

    want = oracle.comp(smiles)
    if want is None:
        return None
    got = RSMIDecomposer.decompose(smiles)
    if got != want:
        return {"smiles": smiles, "got": got, "want": want}
    return "ok"


def mixture_case(parts):
    from synrbl.SynProcessor import RSMIDecomposer

    smiles = ".".join(parts)
    total = {}
    for p in parts:
        d = RSMIDecomposer.decompose(p)
        total = oracle.comp_add(total, d)
    got = RSMIDecomposer.decompose(smiles)
    want = oracle.comp(smiles)
    if got != total or got != want:
        return {"smiles": smiles, "got": got, "sum_of_parts": total, "want": want}
    return "ok"


def carbon_case(pair):
    """carbon label and is_carbon_balanced for the reaction a>>b"""
    from synrbl.SynProcessor import CheckCarbonBalance
    from synrbl.SynMCSImputer.utils import is_carbon_balanced

    a, b = pair
    na, nb = oracle.n_carbon(a), oracle.n_carbon(b)
    rsmi = a + ">>" + b
    want = "balanced" if na == nb else ("products" if na > nb else "reactants")
    chk = CheckCarbonBalance([{"R": rsmi}], rsmi_col="R", symbol=">>", n_jobs=1)
    got = chk.check_carbon_balance()[0]["carbon_balance_check"]
    got2 = is_carbon_balanced(rsmi)
    if got != want or got2 != (na == nb):
        return {"rsmi": rsmi, "label": got, "want": want, "is_balanced": got2}
    return "ok"


def multiplicity_case(pair):
    """mixtures with the same distinct molecules and the same length but different
    multiplicities, decomposed one after the other in one process"""
    from synrbl.SynProcessor import RSMIDecomposer

    a, b = pair
    out = []
    for s in (a + "." + a + "." + b, a + "." + b + "." + b, b + "." + a + "." + a, a + "." + a + "." + b):
        got, want = RSMIDecomposer.decompose(s), oracle.comp(s)
        if got != want:
            out.append({"smiles": s, "got": got, "want": want})
    return out or "ok"


CARBON_SIDES = ["C", "CC", "CC=O", "CC=O.CC=O", "CC.CC", "C.C", "CCO", "C1.C1", "O", "CC=O.CC", "c1ccccc1", "C1=CC=CC=C1", "CCl", "C1.N1"]


def carbon_batch_case(pair):
    """two reactions checked by one CheckCarbonBalance instance (shared cache) in the order
    given: each label must be what the reaction gets on its own"""
    from synrbl.SynProcessor import CheckCarbonBalance

    out = []
    rs = [a + ">>" + b for a, b in pair]
    chk = CheckCarbonBalance([{"R": r} for r in rs], rsmi_col="R", symbol=">>", n_jobs=1)
    got = [x["carbon_balance_check"] for x in chk.check_carbon_balance()]
    for r, g in zip(rs, got):
        a, b = r.split(">>")
        na, nb = oracle.n_carbon(a), oracle.n_carbon(b)
        want = "balanced" if na == nb else ("products" if na > nb else "reactants")
        if g != want:
            out.append({"rsmi": rs, "label": got, "which": r, "want": want})
    return out or "ok"


# ---- comparator: all pairs of small composition dicts in the decomposer's encoding


def small_dicts():
    out = []
    for c, h, o in itertools.product(range(3), repeat=3):
        for q in (-2, -1, 0, 1, 2):
            d = {}
            if c:
                d["C"] = c
            if h:
                d["H"] = h
            if o:
                d["O"] = o
            if q:
                d["Q"] = q
            out.append(d)
    return out


def _vec(d):
    return {k: v for k, v in d.items() if v != 0}


def comparator_verdict_ok(r, p, verdict, diff):
    """The oracle of DESIGN §4/C07(v); returns None or a reason."""
    rv, pv = _vec(r), _vec(p)
    keys = sorted(set(rv) | set(pv))
    want_diff = {k: abs(rv.get(k, 0) - pv.get(k, 0)) for k in keys}
    want_diff = {k: v for k, v in want_diff.items() if v != 0}
    # elements: |r - p| without zero entries; the charge entry keeps a sign (the code's
    # convention: the value to add to the side the verdict names) - only its magnitude
    # and presence are fixed here, its sign by the "adding balances" clause below
    if {k: abs(v) for k, v in diff.items()} != want_diff or any(
        v <= 0 for k, v in diff.items() if k != "Q"
    ):
        return "difference formula is not |r-p| without zero entries"
    if verdict not in ("Balance", "Products", "Reactants", "Both"):
        return "unknown verdict"
    equal = rv == pv
    if (verdict == "Balance") != equal:
        return "Balance verdict does not coincide with equality incl. charge"
    if verdict in ("Products", "Reactants"):
        # adding the difference formula to the named side must balance, and the added
        # formula has no negative element count
        side, other = (pv, rv) if verdict == "Products" else (rv, pv)
        total = {k: side.get(k, 0) + diff.get(k, 0) for k in set(side) | set(diff)}
        if _vec(total) != other:
            return "adding the difference formula to the named side does not balance"
    el_r = {k: v for k, v in rv.items() if k != "Q"}
    el_p = {k: v for k, v in pv.items() if k != "Q"}
    if rv.get("Q", 0) == pv.get("Q", 0):
        ks = set(el_r) | set(el_p)
        ge = all(el_r.get(k, 0) >= el_p.get(k, 0) for k in ks)
        le = all(el_r.get(k, 0) <= el_p.get(k, 0) for k in ks)
        want = "Balance" if ge and le else "Products" if ge else "Reactants" if le else "Both"
        if verdict != want:
            return "verdict differs from element-wise dominance (charges equal)"
    return None


def comparator_chunk(idx_range):
    from synrbl.SynProcessor import RSMIComparator

    dicts = small_dicts()
    bad = []
    n = 0
    lo, hi = idx_range
    for i in range(lo, hi):
        r = dicts[i]
        for p in dicts:
            n += 1
            verdict = RSMIComparator.compare_dicts(dict(r), dict(p))
            diff = RSMIComparator.diff_dicts(dict(r), dict(p))
            why = comparator_verdict_ok(r, p, verdict, diff)
            if why:
                bad.append({"r": r, "p": p, "verdict": verdict, "diff": diff, "why": why})
    return n, bad


BATCH_DICTS = [
    {}, {"C": 1, "H": 4}, {"C": 1, "H": 4, "Na": 1}, {"C": 1, "H": 4, "Q": 1}, {"C": 1, "H": 4, "Q": -1},
    {"C": 2, "H": 6}, {"C": 2, "H": 6, "O": 1}, {"H": 2, "O": 1}, {"Na": 1, "Q": 1}, {"Cl": 1, "Q": -1},
    {"Na": 1, "Cl": 1}, {"Pd": 1},
]


def comparator_batch_chunk(job):
    """RSMIComparator.run_parallel on whole batches (the way the pipeline calls it): every one- and
    two-row batch over all ordered pairs of BATCH_DICTS (elements / charge that occur on one side only,
    in one row only), each on a fresh comparator and all of them in sequence on ONE comparator that was
    constructed with the first batch; per row the answer must be the static compare_dicts / diff_dicts answer
    (which the pair enumeration judges against the oracle)."""
    from synrbl.SynProcessor import RSMIComparator

    lo, hi = job
    rows = [(r, p) for r in BATCH_DICTS for p in BATCH_DICTS]
    batches = [[x] for x in rows] + [[x, y] for x in rows for y in rows]
    bad, n = [], 0
    shared = None
    for bi in range(lo, min(hi, len(batches))):
        b = batches[bi]
        rs, ps = [dict(r) for r, _ in b], [dict(p) for _, p in b]
        want = ([RSMIComparator.compare_dicts(dict(r), dict(p)) for r, p in b],
                [RSMIComparator.diff_dicts(dict(r), dict(p)) for r, p in b])
        if shared is None:
            shared = RSMIComparator(reactants=[dict(x) for x in rs], products=[dict(x) for x in ps], n_jobs=1, verbose=0)
        for mode, comp in (("fresh", RSMIComparator(reactants=rs, products=ps, n_jobs=1, verbose=0)), ("reused", shared)):
            n += 1
            try:
                got = comp.run_parallel(reactants=[dict(x) for x in rs], products=[dict(x) for x in ps])
                got = (list(got[0]), [dict(d) for d in got[1]])
            except Exception as e:
                got = "raises {}: {}".format(type(e).__name__, str(e)[:80])
            if got != want:
                bad.append({"batch": [[r, p] for r, p in b], "mode": mode, "got": got, "want": want, "first": batches[lo]})
                if len(bad) >= 20:
                    return n, bad
    return n, bad


def frame_case(job):
    """RSMIDecomposer.data_decomposer on a batch given as list of dicts and as DataFrame with a default, a permuted,
    a filtered (labels missing) and a duplicated index, parallel and not: row k of the answer is the composition of row k"""
    import pandas as pd

    from synrbl.SynProcessor import RSMIDecomposer

    sides = job
    rows = [{"reactants": a, "products": b} for a, b in sides]
    want = ([RSMIDecomposer.decompose(a) for a, _ in sides], [RSMIDecomposer.decompose(b) for _, b in sides])
    n = len(rows)
    frames = {"list": rows, "frame": pd.DataFrame(rows)}
    if n > 1:
        frames["permuted-index"] = pd.DataFrame(rows, index=list(range(n))[::-1])
        frames["shifted-index"] = pd.DataFrame(rows, index=[i + 1 for i in range(n)])
        frames["duplicated-index"] = pd.DataFrame(rows, index=[0] * n)
        frames["filtered"] = pd.DataFrame(rows + rows)[lambda d: d.index % 2 == 1]
        frames["text-index"] = pd.DataFrame(rows, index=["r{}".format(i) for i in range(n)])
    bad = []
    k = 0
    for name, data in frames.items():
        w = want if name != "filtered" else ([want[0][i % n] for i in range(1, 2 * n, 2)], [want[1][i % n] for i in range(1, 2 * n, 2)])
        for parallel in (False, True):
            k += 1
            try:
                got = RSMIDecomposer(smiles=None, data=data, reactant_col="reactants", product_col="products", parallel=parallel,
                                     n_jobs=1, verbose=0).data_decomposer()
                got = ([dict(d) for d in got[0]], [dict(d) for d in got[1]])
            except Exception as e:
                got = "raises {}: {}".format(type(e).__name__, str(e)[:80])
            if got != w:
                bad.append({"sides": [list(x) for x in sides], "input": name, "parallel": parallel, "got": got, "want": w})
    return k, bad


def _key_decomp(case):
    want, got = case["want"], case["got"]
    if "Unknown" in got:
        return ["unknown-element"]
    if got.get("Q", 0) != want.get("Q", 0):
        return ["charge"]
    if got.get("H", 0) != want.get("H", 0):
        return ["hydrogen"]
    return ["element-count"]


def spaces(tier):
    mols = []
    mols += universe.corpus_molecules()
    mols += element_forms()
    mols += universe.U(["C", "N", "O", "S", "P", "F", "Cl", "Br", "I", "B", "Si"], 3)
    if tier == "thorough":
        mols += universe.U(["C", "N", "O"], 5)
        mols += universe.U(["C", "N", "O", "S", "P", "Cl"], 4, rings=False)
    else:
        mols += universe.U(["C", "N", "O"], 4)
    mols += MIX_ALPHABET
    mols += size_ladder()
    mols += DOT_CLOSURE
    seen, out = set(), []
    for s in mols:
        if s not in seen:
            seen.add(s)
            out.append(s)
    return out


def run(tier, seed):
    res = Result("exploration")
    mols = spaces(tier)
    r1 = pmap("checks.c07:decomp_case", mols, chunk=500, seed=seed)
    n_valid = sum(1 for r in r1 if r is not None)
    for r in r1:
        if isinstance(r, dict):
            res.add(Violation("decompose", r["smiles"], r["got"], r["want"],
                              _key_decomp(r), "composition of {} is {} not {}".format(
                                  r["smiles"], r["got"], r["want"])))
    # additivity: all ordered pairs (quick) and triples (thorough) of the alphabet
    k = 3 if tier == "thorough" else 2
    mixes = [p for n in range(2, k + 1) for p in itertools.product(MIX_ALPHABET, repeat=n)]
    r2 = pmap("checks.c07:mixture_case", mixes, chunk=1000, seed=seed)
    for r in r2:
        if isinstance(r, dict):
            res.add(Violation("additivity", r["smiles"], r["got"], r["want"],
                              _key_decomp(r) + ["mixture"],
                              "mixture {} decomposes to {}".format(r["smiles"], r["got"])))
    # carbon labels on all ordered pairs of sides
    sides = MIX_ALPHABET + [a + "." + b for a, b in itertools.combinations(MIX_ALPHABET[:12], 2)]
    pairs = list(itertools.product(sides, repeat=2))
    if tier != "thorough":
        pairs = list(itertools.product(MIX_ALPHABET, repeat=2))
    pairs += carbon_ladder()
    r3 = pmap("checks.c07:carbon_case", pairs, chunk=100, seed=seed)
    for r in r3:
        if isinstance(r, dict):
            res.add(Violation("carbon", r["rsmi"], r, None, ["carbon-label"],
                              "carbon label of {} is {}/{} want {}".format(
                                  r["rsmi"], r["label"], r["is_balanced"], r["want"])))
    mpairs = [(a, b) for a, b in itertools.permutations(MIX_ALPHABET[:24], 2)]
    r2b = pmap("checks.c07:multiplicity_case", mpairs, chunk=50, seed=seed)
    for p, r in zip(mpairs, r2b):
        if isinstance(r, list):
            res.add(Violation("multiplicity", list(p), r[0], None, _key_decomp(r[0]) + ["multiplicity-sequence"],
                              "after {0}.{0}.{1} / {0}.{1}.{1} in one process: {2} decomposes to {3}".format(p[0], p[1], r[0]["smiles"], r[0]["got"])))
    rx = list(itertools.product(CARBON_SIDES, repeat=2))
    if tier != "thorough":
        rx = [r for r in rx if r[0] in CARBON_SIDES[:8] and r[1] in CARBON_SIDES[:8]]
    bpairs = list(itertools.product(rx, repeat=2))
    r3b = pmap("checks.c07:carbon_batch_case", bpairs, chunk=400, seed=seed)
    for r in r3b:
        if isinstance(r, list):
            for x in r[:1]:
                res.add(Violation("carbon-batch", x["rsmi"], x, None, ["carbon-label", "batch"],
                                  "carbon label of {} within the batch {} is {} want {}".format(
                                      x["which"], x["rsmi"], x["label"], x["want"])))
    # comparator
    nd = len(small_dicts())
    ranges = [(i, min(nd, i + 5)) for i in range(0, nd, 5)]
    r4 = pmap("checks.c07:comparator_chunk", ranges, chunk=1, seed=seed)
    n_pairs = sum(n for n, _ in r4)
    for _, bad in r4:
        for b in bad:
            res.add(Violation("comparator", {"r": b["r"], "p": b["p"]},
                              {"verdict": b["verdict"], "diff": b["diff"]}, b["why"],
                              ["comparator", b["why"]], "compare {} vs {}: {}".format(
                                  b["r"], b["p"], b["why"])))
    nb = len(BATCH_DICTS) ** 2
    nb = nb + nb * nb
    branges = [(i, i + 1500) for i in range(0, nb, 1500)]
    r5 = pmap("checks.c07:comparator_batch_chunk", branges, chunk=1, seed=seed)
    n_batches = sum(n for n, _ in r5)
    for (lo, hi), (_, bad) in zip(branges, r5):
        for b in bad[:3]:
            res.add(Violation("comparator-batch", {"lo": lo, "hi": hi, "batch": b["batch"], "mode": b["mode"]}, b["got"], b["want"],
                              ["comparator", "batch", b["mode"]],
                              "run_parallel on the batch {} ({} comparator) gives {} but row by row {}".format(
                                  b["batch"], b["mode"], b["got"], b["want"])))
    fsides = ["CCO", "CC=O", "O", "CC(=O)[O-].[Na+]", "[NH3+]CC(=O)[O-]"]
    fjobs = [[(a, b)] for a in fsides for b in fsides] + [[(a, b), (c, a)] for a in fsides for b in fsides for c in fsides if b != c] + \
            [[(a, b), (b, c), (c, a)] for a in fsides[:4] for b in fsides[:4] for c in fsides[:4] if len({a, b, c}) == 3]
    r6 = pmap("checks.c07:frame_case", fjobs, chunk=20, seed=seed)
    n_frames = sum(n for n, _ in r6)
    nf = 0
    for _, bad in r6:
        for b in bad:
            nf += 1
            if nf <= 6:
                res.add(Violation("decomposer-batch", {"sides": b["sides"], "input": b["input"], "parallel": b["parallel"]}, b["got"], b["want"],
                                  ["decompose", "batch", b["input"]],
                                  "data_decomposer on {} given as {} (parallel={}) gives {} want {}".format(
                                      b["sides"], b["input"], b["parallel"], b["got"], b["want"])))
    res.coverage = {
        "decomposer_batches": n_frames,
        "comparator_batches": n_batches,
        "evaluations": len(r1) + len(r2) + 4 * len(r2b) + len(r3) + len(r3b) + n_pairs + n_batches + n_frames,
        "distinct_nontrivial": n_valid + len(mixes) + len(pairs) + len(bpairs) + n_pairs,
        "carbon_batches": len(bpairs),
        "rule": "distinct SMILES that RDKit parses (corpus molecules, every element Z=1..118 "
                "in 13 forms, generated universes, a size ladder of 9 repeat units x 23 lengths up to 400) compared with the independent composition; "
                "all ordered tuples of a {}-molecule alphabet up to length {} for additivity; "
                "all ordered pairs of sides for the carbon label (plus a ladder of sides with n, n+-1 carbon atoms, n up to 10001, as one chain / many molecules), and all ordered pairs of reactions over a side "
                "alphabet with repeated molecules checked by one checker instance; all {}x{} pairs of "
                "composition dicts over C,H,O in 0..2 and Q in -2..2 for the comparator; every one- and two-row batch over all ordered pairs of 12 dicts "
                "(elements / charges on one side, in one row only) through run_parallel on fresh comparators and in sequence on one comparator; batches of 1..3 rows through RSMIDecomposer.data_decomposer as list of dicts and as DataFrame with default / permuted / shifted / duplicated / filtered / textual index. "
                "Non-trivial = parses (every case exercises the accounting).".format(
                    len(MIX_ALPHABET), k, nd, nd),
        "samples": [mols[0], mols[len(mols) // 2], mols[-1], ".".join(mixes[-1]),
                    {"r": small_dicts()[7], "p": small_dicts()[100]}],
        "molecules": n_valid,
        "mixtures": len(mixes),
        "carbon_pairs": len(pairs),
        "comparator_pairs": n_pairs,
        "exhaustive": True,
    }
    res.assumptions = ["RDKit's SMILES parser and valence model (implicit hydrogen counts)"]
    return res


def replay(v):
    out = []
    if v.sub == "decompose":
        r = decomp_case(v.case)
        if isinstance(r, dict):
            out.append(Violation(v.sub, v.case, r["got"], r["want"], _key_decomp(r),
                                 "composition of {} is {} not {}".format(v.case, r["got"], r["want"])))
    elif v.sub == "additivity":
        r = mixture_case(v.case.split("."))
        if isinstance(r, dict):
            out.append(Violation(v.sub, v.case, r["got"], r["want"], v.key, "mixture"))
    elif v.sub == "carbon":
        a, b = v.case.split(">>")
        r = carbon_case((a, b))
        if isinstance(r, dict):
            out.append(Violation(v.sub, v.case, r, None, v.key, "carbon label"))
    elif v.sub == "multiplicity":
        r = multiplicity_case(tuple(v.case))
        if isinstance(r, list):
            out.append(Violation(v.sub, v.case, r[0], None, v.key, "multiplicity sequence"))
    elif v.sub == "carbon-batch":
        r = carbon_batch_case([tuple(x.split(">>")) for x in v.case])
        if isinstance(r, list):
            out.append(Violation(v.sub, v.case, r[0], None, v.key, "carbon label in batch"))
    elif v.sub == "decomposer-batch":
        _, bad = frame_case([tuple(x) for x in v.case["sides"]])
        for b in bad:
            if b["input"] == v.case["input"] and b["parallel"] == v.case["parallel"]:
                out.append(Violation(v.sub, v.case, b["got"], b["want"], v.key, "data_decomposer on a batch"))
                break
    elif v.sub == "comparator-batch":
        _, bad = comparator_batch_chunk((v.case["lo"], v.case["hi"]))
        for b in bad:
            if b["batch"] == v.case["batch"] and b["mode"] == v.case["mode"]:
                out.append(Violation(v.sub, v.case, b["got"], b["want"], v.key, "run_parallel on a batch"))
                break
    elif v.sub == "comparator":
        from synrbl.SynProcessor import RSMIComparator

        r, p = v.case["r"], v.case["p"]
        verdict = RSMIComparator.compare_dicts(dict(r), dict(p))
        diff = RSMIComparator.diff_dicts(dict(r), dict(p))
        why = comparator_verdict_ok(r, p, verdict, diff)
        if why:
            out.append(Violation(v.sub, v.case, {"verdict": verdict, "diff": diff}, why, v.key, why))
    return out
