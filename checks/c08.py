"""C08 — rule-based completions add up exactly to the imbalance they are asked to fill.

E1: bounded-exhaustive enumeration.

  (i)   db-record  every record of both shipped rule databases: Composition == comp(smiles),
                   charge entry Q explicit (the databases write Q also when it is 0).
  (ii)  matcher    every imbalance vector with <= N atoms over the element set of the
                   database (derived from its records) x Q in -2..2, plus H-rich vectors
                   H4..H8 with <= 2 other atoms, through SyntheticRuleMatcher.match for
                   select in {all, best} x every ranking.
  (iii) impute     the same vectors through SyntheticRuleImputer.single_impute, both sides.
  (iv)  fit        RuleConstraint.fit (ban list read from rule_based.py) on the dicts of (iii).
  (v)   pipeline   every rule-based row of a complete universe of small reactions.

The reference is `oracle.comp` (RDKit only); the composition recorded in the database is
never trusted by the oracle.
"""

import ast
import itertools
import json
import os

from mc import oracle
from mc.pool import pmap
from mc.report import Result, Violation

PROPERTY = "C08"

QS = (-2, -1, 0, 1, 2)
SELECTS = ("all", "best")
# every ranking mode SyntheticRuleMatcher.rank_solutions distinguishes, plus "no ranking"
RANKINGS = ("longest", "least", "greatest", "ion_priority", False)
# (select, ranking) used by the imputer: the pipeline's configuration and the default one
IMPUTE_CONFIGS = (("all", "ion_priority"), ("best", "longest"))
SIDES = ("Products", "Reactants")
# base reactions (reactants, products) the completions are appended to.  B0 for every
# vector; the others (alkali metal = the "no constraint" branch of fit; given compounds
# that spell like placeholders) for the vectors that have a completion.
BASES = (("CC", "CC"), ("CC.[Na]", "CC"), ("OO.CC", "CC.OO.[O].[H].[H]"))
HALOGENS = (9, 17, 35, 53)
FALLBACK_BAN = ["[O].[O]", "F-F", "Cl-Cl", "Br-Br", "I-I", "Cl-Br", "Cl-I", "Br-I"]

# pipeline: reactions whose imbalance is a dihalogen / interhalogen
HALOGEN_RXNS = [
    "ClCCCl>>C=C", "BrCCBr>>C=C", "FCCF>>C=C", "ICCI>>C=C", "ClCCBr>>C=C", "ClCCI>>C=C",
    "BrCCI>>C=C", "FCCCl>>C=C", "FCCBr>>C=C", "FCCI>>C=C", "CC(Cl)=O.CCCl>>CC=O.CC",
    "ClC(Cl)C>>C=C", "CCO.ClCl>>CCO", "CCO>>CCO.BrBr",
]

_CACHE = {}


# ------------------------------------------------------------------ databases / context


def db_paths():
    from mc.boot import ROOT

    return {
        "shipped": os.path.join(ROOT, "synrbl", "SynRuleImputer", "rules_manager.json.gz"),
        "automated": os.path.join(ROOT, "Data", "Rules", "automated_rules.json.gz"),
    }


def load_db(name):
    """The records exactly as the solver gets them: the shipped database through
    RuleBasedMethod's own loader, the other one through load_database."""
    key = ("db", name)
    if key not in _CACHE:
        if name == "shipped":
            from synrbl.rule_based import RuleBasedMethod

            _CACHE[key] = RuleBasedMethod("id", "reaction", "out").rules
        else:
            from synrbl.rsmi_utils import load_database

            _CACHE[key] = load_database(db_paths()[name])
    return _CACHE[key]


def db_elements(name):
    return sorted({k for r in load_db(name) for k in r["Composition"] if k != "Q"})


def full_comp(c):
    """oracle composition -> vector with Q explicit and no zero element entries"""
    d = {k: v for k, v in c.items() if v != 0 and k != "Q"}
    d["Q"] = c.get("Q", 0)
    return d


def db_index(name):
    """smiles -> reference composition (Q explicit), canonical molecule -> same"""
    key = ("index", name)
    if key not in _CACHE:
        by_smiles, by_canon = {}, {}
        for r in load_db(name):
            c = oracle.comp(r["smiles"])
            if c is None:
                continue
            by_smiles[r["smiles"]] = full_comp(c)
            for m in oracle.mols(r["smiles"]):
                by_canon[m] = full_comp(oracle.comp(m))
        _CACHE[key] = (by_smiles, by_canon)
    return _CACHE[key]


def ban_list():
    """The ban list RuleBasedMethod.run hands to RuleConstraint, read from its source."""
    if "ban" not in _CACHE:
        import synrbl.rule_based as rb

        found = None
        try:
            with open(rb.__file__) as f:
                tree = ast.parse(f.read())
            for node in ast.walk(tree):
                if isinstance(node, ast.Call) and getattr(node.func, "id", None) == "RuleConstraint":
                    for kw in node.keywords:
                        if kw.arg == "ban_atoms":
                            found = ast.literal_eval(kw.value)
        except Exception:
            found = None
        _CACHE["ban"] = (list(found), True) if found else (list(FALLBACK_BAN), False)
    return _CACHE["ban"]


def add_scaled(total, c, n):
    for k, v in c.items():
        total[k] = total.get(k, 0) + n * v


def clean(total):
    d = {k: total[k] for k in sorted(total) if total[k] != 0 and k != "Q"}
    d["Q"] = total.get("Q", 0)
    return d


def comp_of_counter(counter):
    """composition (Q explicit) of a multiset of canonical molecules; None if one fails"""
    total = {}
    for m, n in counter.items():
        c = oracle.comp(m)
        if c is None:
            return None
        add_scaled(total, c, n)
    return clean(total)


def vec_diff(a, b):
    keys = set(a) | set(b)
    d = {k: a.get(k, 0) - b.get(k, 0) for k in keys}
    return clean(d)


def is_dihalogen(canon):
    """X2 or XY, X,Y in F Cl Br I: decided on the parsed molecule"""
    m = oracle.parse(canon)
    if m is None or m.GetNumAtoms() != 2 or m.GetNumBonds() != 1:
        return False
    return all(
        a.GetAtomicNum() in HALOGENS and a.GetFormalCharge() == 0 and a.GetTotalNumHs() == 0
        for a in m.GetAtoms()
    )


# ------------------------------------------------------------------ vector enumeration


def layer(elements, n):
    """all element vectors with exactly n atoms, as sorted tuples of (element, count)"""
    out = []
    for c in itertools.combinations_with_replacement(elements, n):
        d = {}
        for e in c:
            d[e] = d.get(e, 0) + 1
        out.append(tuple(sorted(d.items())))
    return out


def hrich(elements, bound):
    """H4..H8 combined with <= 2 other atoms, not already inside the <= bound family"""
    others = [e for e in elements if e != "H"]
    out = []
    if "H" not in elements:
        return out
    for h in range(4, 9):
        for k in range(0, 3):
            if h + k <= bound:
                continue
            for t in layer(others, k):
                out.append(tuple(sorted(t + (("H", h),))))
    return out


def n_atoms(t):
    return sum(n for _, n in t)


# ------------------------------------------------------------------ oracles (ii)-(iv)


def check_solution(sol, want, by_smiles):
    """None or (key, text) for one completion against the vector `want` (Q explicit)."""
    if not isinstance(sol, list):
        return ["matcher", "shape"], "completion is not a list"
    total = {}
    for item in sol:
        if not isinstance(item, dict) or "smiles" not in item or "Ratio" not in item:
            return ["matcher", "shape"], "completion entry without smiles/Ratio"
        s, r = item["smiles"], item["Ratio"]
        if s not in by_smiles:
            return ["matcher", "non-database-smiles"], "{} is not a database compound".format(s)
        if type(r) is not int or r < 1:
            return ["matcher", "ratio"], "Ratio {!r} of {} is not an integer >= 1".format(r, s)
        add_scaled(total, by_smiles[s], r)
    got = clean(total)
    if got != want:
        d = vec_diff(got, want)
        kind = "charge" if all(k == "Q" for k, v in d.items() if v != 0) else "element"
        return ["matcher", "sum", kind], "completion sums to {} (surplus {})".format(got, d)
    return None


def sol_molecules(sol):
    from collections import Counter

    out = Counter()
    for item in sol:
        for m, n in oracle.mols(item["smiles"]).items():
            out[m] += n * item["Ratio"]
    return out


def fit_cause(imputed_products):
    toks = imputed_products.split(".") if imputed_products else []
    if toks.count("OO") > 1:
        return "peroxide-multiplicity"
    return "other"


def check_vector(job):
    """worker: one element vector x all charges through (ii) (iii) (iv).
    job = (db name, ((element, n), ...), full, charges)   full: run every configuration even when
    the unranked select="all" search finds nothing (otherwise the remaining configurations
    and the imputer, which repeat the same depth-first search, are run only for vectors
    with at least one completion)."""
    from synrbl.SynRuleImputer.synthetic_rule_matcher import SyntheticRuleMatcher
    from synrbl.SynRuleImputer.synthetic_rule_imputer import SyntheticRuleImputer
    from synrbl.SynRuleImputer.synthetic_rule_constraint import RuleConstraint

    dbname, vt, full, qs = job
    rules = load_db(dbname)
    by_smiles, by_canon = db_index(dbname)
    ban, _ = ban_list()
    cnt = dict(match=0, completions=0, nontrivial=0, impute=0, imputed=0, fit=0, certain=0,
               uncertain=0, dropped=0, uncertain_changed=0, vectors=0)
    bads = []

    def bad(sub, case_extra, observed, expected, key, what):
        case = {"db": dbname, "vector": dict(vt), "q": q}
        case.update(case_extra)
        bads.append(dict(sub=sub, case=case, observed=observed, expected=expected, key=key,
                         what=what))

    for q in qs:
        cnt["vectors"] += 1
        want = dict(vt)
        want["Q"] = q
        first = {}

        def run_match(sel, rk):
            data = dict(vt)
            data["Q"] = q
            sols = SyntheticRuleMatcher(rules, data, select=sel, ranking=rk).match()
            cnt["match"] += 1
            if not isinstance(sols, list):
                bad("matcher", {"select": sel, "ranking": rk}, repr(sols), "list of completions",
                    ["matcher", "shape"], "match() returned {!r}".format(type(sols).__name__))
                return []
            for sol in sols:
                cnt["completions"] += 1
                why = check_solution(sol, want, by_smiles)
                if why:
                    bad("matcher", {"select": sel, "ranking": rk}, sol, want, why[0],
                        "{} db, vector {} select={} ranking={}: {}".format(dbname, want, sel, rk, why[1]))
            first[(sel, rk)] = sols[0] if sols and isinstance(sols[0], list) else None
            return sols

        raw_all = run_match("all", False)
        some = any(len(s) > 0 for s in raw_all)
        if not (some or full):
            continue
        raw_best = run_match("best", False)
        some = some or any(len(s) > 0 for s in raw_best)
        if some:
            cnt["nontrivial"] += 1
        for sel in SELECTS:
            for rk in RANKINGS:
                if rk is False:
                    continue
                run_match(sel, rk)

        # (iii) + (iv)
        bases = BASES if some else BASES[:1]
        for bi, (r0, p0) in enumerate(bases):
            for sel, rk in IMPUTE_CONFIGS:
                for side in SIDES:
                    diff = dict(vt)
                    if q != 0:  # the comparator's encoding: no charge entry when it is 0
                        diff["Q"] = q
                    entry = {"reactants": r0, "products": p0, "Diff_formula": diff,
                             "Unbalance": side, "id": 0}
                    out = SyntheticRuleImputer.single_impute(entry, rules, sel, rk)
                    cnt["impute"] += 1
                    extra = {"select": sel, "ranking": rk, "side": side, "base": [r0, p0]}
                    f = first.get((sel, rk))
                    if "new_reaction" not in out:
                        if out.get("reactants") != r0 or out.get("products") != p0:
                            bad("impute", extra, {k: out.get(k) for k in ("reactants", "products")},
                                [r0, p0], ["impute", "unsolved-modified"],
                                "no new_reaction but the sides changed")
                        if f:
                            cnt["dropped"] += 1
                        continue
                    cnt["imputed"] += 1
                    key_side = "products" if side == "Products" else "reactants"
                    other = "reactants" if key_side == "products" else "products"
                    base_side = p0 if key_side == "products" else r0
                    base_other = r0 if key_side == "products" else p0
                    obs = {k: out.get(k) for k in ("reactants", "products", "new_reaction", "imputed")}
                    if out.get(other) != base_other:
                        bad("impute", extra, obs, base_other, ["impute", "other-side-changed"],
                            "the {} side changed although {} was reported".format(other, side))
                        continue
                    if out["new_reaction"] != out["reactants"] + ">>" + out["products"]:
                        bad("impute", extra, obs, "reactants>>products", ["impute", "new_reaction-text"],
                            "new_reaction is not reactants>>products")
                        continue
                    m_new, m_old = oracle.mols(out[key_side]), oracle.mols(base_side)
                    if m_new is None or not oracle.multiset_leq(m_old, m_new) or not out[
                        key_side
                    ].startswith(base_side + "."):
                        bad("impute", extra, obs, base_side + ".<completion>", ["impute", "not-appended"],
                            "the {} side is not the old side plus a completion".format(key_side))
                        continue
                    added = m_new - m_old
                    foreign = sorted(m for m in added if m not in by_canon)
                    if foreign:
                        bad("impute", extra, obs, "database compounds", ["impute", "non-database-compound"],
                            "added {} which is not in the database".format(foreign))
                        continue
                    got = comp_of_counter(added)
                    if got != want:
                        d = vec_diff(got, want)
                        kind = "charge" if all(k == "Q" for k, v in d.items() if v != 0) else "element"
                        bad("impute", extra, obs, want, ["impute", "sum", kind],
                            "{} db, vector {} side {} ({}/{}): added molecules sum to {}".format(
                                dbname, want, side, sel, rk, got))
                        continue
                    if f is None or added != sol_molecules(f):
                        bad("impute", extra, obs, f, ["impute", "not-one-completion"],
                            "added molecules are not exactly the first completion of match()")
                        continue
                    if (out.get("imputed") or {}).get(key_side) is None or out[key_side] != (
                        base_side + "." + out["imputed"][key_side]
                    ):
                        bad("impute", extra, obs, "imputed entry == appended text",
                            ["impute", "imputed-entry"], "the imputed entry is not the appended text")
                        continue

                    # (iv) fit on this imputed dict
                    before = vec_diff(comp_of_counter(oracle.mols(out["products"])),
                                      comp_of_counter(oracle.mols(out["reactants"])))
                    certain, uncertain = RuleConstraint([out], ban_atoms=list(ban)).fit()
                    cnt["fit"] += 1
                    cnt["certain"] += len(certain)
                    cnt["uncertain"] += 1 if uncertain else 0
                    if not certain and not uncertain:
                        bad("fit", extra, None, "certain or uncertain", ["fit", "reaction-vanished"],
                            "fit returned the reaction in neither list")
                    for acc, lst in ((True, certain), (False, uncertain)):
                        for e in lst:
                            problem = fit_entry_problem(e, r0, p0, before, accepted=acc)
                            if problem is None:
                                continue
                            if not acc:
                                cnt["uncertain_changed"] += 1
                                continue
                            pkey, ptext = problem
                            if pkey == ["fit", "balance-changed"]:
                                pkey = pkey + [fit_cause((out.get("imputed") or {}).get("products", ""))]
                            bad("fit", extra, {k: e.get(k) for k in ("reactants", "products", "new_reaction")},
                                {"before": out["new_reaction"], "products-reactants": before}, pkey,
                                "{} db, vector {} side {} ({}/{}): {} -> fit -> {}: {}".format(
                                    dbname, want, side, sel, rk, out["new_reaction"], e.get("new_reaction"), ptext))
    return cnt, bads


def fit_entry_problem(e, r0, p0, before, accepted=True):
    """What is wrong with an entry returned by fit, or None.  `before` = comp(products) -
    comp(reactants) of the imputed reaction."""
    r, p = e.get("reactants"), e.get("products")
    if e.get("new_reaction") != "{}>>{}".format(r, p):
        return ["fit", "new_reaction-text"], "new_reaction is not reactants>>products"
    mr, mp = oracle.mols(r), oracle.mols(p)
    if mr is None or mp is None:
        return ["fit", "unparsable"], "a side does not parse after fit"
    if not oracle.multiset_leq(oracle.mols(r0), mr) or not oracle.multiset_leq(oracle.mols(p0), mp):
        return ["fit", "given-molecule-lost"], "a compound of the given reaction disappeared"
    for m in (mp - oracle.mols(p0)) if accepted else ():
        if is_dihalogen(m):
            return ["fit", "halogen-accepted"], "added product {} is a dihalogen".format(m)
    after = vec_diff(comp_of_counter(mp), comp_of_counter(mr))
    if after != before:
        return ["fit", "balance-changed"], "products-reactants was {} and is {}".format(before, after)
    return None


# ------------------------------------------------------------------ (i)


def check_records():
    out, n = [], 0
    for name in ("shipped", "automated"):
        for i, r in enumerate(load_db(name)):
            n += 1
            c = oracle.comp(r.get("smiles"))
            rec = r.get("Composition")
            case = {"db": name, "index": i, "smiles": r.get("smiles"), "formula": r.get("formula")}
            if c is None:
                out.append(dict(sub="db-record", case=case, observed=rec, expected="parsable SMILES",
                                key=["db-record", "unparsable", name], what="{} record {} does not parse".format(name, r.get("smiles"))))
                continue
            want = full_comp(c)
            if rec != want:
                if isinstance(rec, dict) and "Q" not in rec and dict(rec, Q=0) == want:
                    key = ["db-record", "Q-missing", name]
                else:
                    key = ["db-record", "composition", name, r.get("smiles")]
                out.append(dict(sub="db-record", case=case, observed=rec, expected=want, key=key,
                                what="{} record {} ({}) has Composition {} but its SMILES is {}".format(
                                    name, r.get("formula"), r.get("smiles"), rec, want)))
    return n, out


# ------------------------------------------------------------------ (v) pipeline


def template_markers():
    """canonical molecules that occur in a redox reagent template and not in the rule
    database (plus the raw template strings)"""
    if "templ" not in _CACHE:
        from mc.boot import ROOT

        path = os.path.join(ROOT, "synrbl", "SynChemImputer", "reaction_template.json")
        raw = set()

        def walk(x):
            if isinstance(x, dict):
                for k, v in x.items():
                    if k in ("reactants", "products") and isinstance(v, list):
                        raw.update(s for s in v if isinstance(s, str))
                    else:
                        walk(v)
            elif isinstance(x, list):
                for v in x:
                    walk(v)

        try:
            with open(path) as f:
                walk(json.load(f))
        except Exception:
            pass
        _, by_canon = db_index("shipped")
        canon = set()
        for s in sorted(raw):
            ms = oracle.mols(s)
            if ms:
                canon.update(m for m in ms if m not in by_canon)
        rawm = {s for s in raw if (oracle.canon(s) or s) not in by_canon}
        _CACHE["templ"] = (canon, rawm)
    return _CACHE["templ"]


def pipeline_row_problem(text, row):
    """('skip', reason) | ('ok', None) | ('bad', dict)"""
    if row.get("solved_by") != "rule-based" or not row.get("solved"):
        return "skip", "not-rule-based"
    _, by_canon = db_index("shipped")
    tcanon, traw = template_markers()
    t_in, t_out = oracle.split_reaction(text), oracle.split_reaction(row.get("reaction"))
    if t_in is None:
        return "skip", "input"
    if t_out is None:
        return "bad", dict(key=["pipeline", "unsplittable"], observed=row.get("reaction"),
                           expected="two sides", what="{} -> {}".format(text, row.get("reaction")))
    in_tokens = set(t_in[0].split(".")) | set(t_in[1].split("."))
    out_tokens = set(t_out[0].split(".")) | set(t_out[1].split("."))
    if (out_tokens - in_tokens) & traw:
        return "skip", "template"
    mi = [oracle.mols(s) for s in t_in]
    mo = [oracle.mols(s) for s in t_out]
    if any(m is None for m in mi):
        return "skip", "input"
    if any(m is None for m in mo):
        return "bad", dict(key=["pipeline", "unparsable"], observed=row.get("reaction"),
                           expected="parsable", what="{} -> {} does not parse".format(text, row.get("reaction")))
    added = [mo[0] - mi[0], mo[1] - mi[1]]
    if any(m in tcanon for a in added for m in a):
        return "skip", "template"
    obs = {"reaction": row.get("reaction"), "added_left": dict(added[0]), "added_right": dict(added[1])}
    for side, a, b in (("reactants", mi[0], mo[0]), ("products", mi[1], mo[1])):
        if not oracle.multiset_leq(a, b):
            return "bad", dict(key=["pipeline", "molecule-lost", side], observed=obs, expected="input molecules kept",
                               what="{} -> {} loses an input molecule".format(text, row.get("reaction")))
    foreign = sorted(m for a in added for m in a if m not in by_canon)
    if foreign:
        return "bad", dict(key=["pipeline", "non-database-compound"], observed=obs, expected="database compounds",
                           what="{} -> {} adds {} (not in the rule database)".format(text, row.get("reaction"), foreign))
    for m in added[1]:
        if is_dihalogen(m):
            return "bad", dict(key=["pipeline", "halogen-accepted"], observed=obs, expected="no X2/XY product",
                               what="{} -> {} adds the dihalogen {}".format(text, row.get("reaction"), m))
    want = vec_diff(comp_of_counter(mi[1]), comp_of_counter(mi[0]))
    got = vec_diff(comp_of_counter(added[0]), comp_of_counter(added[1]))
    if got != want:
        return "bad", dict(key=["pipeline", "sum"], observed=dict(obs, added_left_minus_right=got), expected=want,
                           what="{} -> {}: added molecules sum to {} but the imbalance is {}".format(
                               text, row.get("reaction"), got, want))
    return "ok", None


def pipe_batch(rxns, fresh=False):
    """worker: one Balancer.rebalance call over a batch; evaluates rule-based rows"""
    from checks import pipefam as pf

    spec = {"rxns": list(rxns)}
    if fresh:
        spec["fresh"] = True
    out = pf.pipeline.run(spec)
    rows = out["rows"]
    res = dict(n=len(rxns), rule_based=[], template=0, bads=[])
    if rows is None or len(rows) != len(rxns):
        res["bads"].append(dict(sub="pipeline", case={"batch": list(rxns)}, key=["row-count"],
                                observed={"rows": None if rows is None else len(rows), "raised": out["raised"]},
                                expected=len(rxns), what="run of {} reactions returned {} rows ({})".format(
                                    len(rxns), None if rows is None else len(rows), out["raised"])))
        return res
    for i, (text, row) in enumerate(zip(rxns, rows)):
        if isinstance(text, dict):
            text = text["reaction"]
        verdict, info = pipeline_row_problem(text, row)
        if verdict == "skip":
            if info == "template":
                res["template"] += 1
            continue
        res["rule_based"].append(text)
        if verdict == "bad":
            info.update(sub="pipeline", case={"batch": list(rxns), "index": i, "rxn": text})
            res["bads"].append(info)
    return res


# ------------------------------------------------------------------ driver


def to_violation(b):
    return Violation(b["sub"], b["case"], b.get("observed"), b.get("expected"), b["key"], b["what"])


def compound_sums(name, k, max_atoms):
    """[(vector tuple, Q)] of all sums of exactly k database compounds (distinct
    compositions, with repetition) that have at most max_atoms atoms"""
    by_smiles, _ = db_index(name)
    comps = sorted({tuple(sorted(c.items())) for c in by_smiles.values()})
    out = set()
    for ms in itertools.combinations_with_replacement(comps, k):
        t = {}
        for c in ms:
            for e, n in c:
                t[e] = t.get(e, 0) + n
        q = t.pop("Q", 0)
        vt = tuple(sorted((e, n) for e, n in t.items() if n))
        if max_atoms is None or n_atoms(vt) <= max_atoms:
            out.add((vt, q))
    return sorted(out, key=lambda x: (n_atoms(x[0]), x))


# (k compounds, max atoms) of the compound-sum family per tier and database: the search is
# exponential in the size of the vector for the 51-record database
SUMS = {
    ("quick", "shipped"): ((1, None), (2, 8)),
    ("quick", "automated"): ((1, None), (2, None)),
    ("thorough", "shipped"): ((1, None), (2, 10), (3, 7)),
    ("thorough", "automated"): ((1, None), (2, None), (3, None)),
}


def db_sequence(job):
    """worker: the same imbalance solved with both databases one after the other in one
    process (histories of length 2..4 over {shipped, automated}); every completion must use
    compounds of the database in use.  Hidden state shared between matchers would show here
    whatever the process did before."""
    from synrbl.SynRuleImputer.synthetic_rule_matcher import SyntheticRuleMatcher

    vt, q = job
    want = dict(vt)
    want["Q"] = q
    bads = []
    n = 0
    for order in (("shipped", "automated"), ("automated", "shipped", "automated", "shipped")):
        for sel, rk in (("all", "ion_priority"), ("best", "longest")):
            for pos, name in enumerate(order):
                rules = load_db(name)
                by_smiles, _ = db_index(name)
                data = dict(vt)
                data["Q"] = q
                sols = SyntheticRuleMatcher(rules, data, select=sel, ranking=rk).match()
                n += 1
                for sol in sols if isinstance(sols, list) else []:
                    why = check_solution(sol, want, by_smiles)
                    if why:
                        bads.append(dict(sub="db-sequence", case={"vector": dict(vt), "q": q}, observed=sol, expected=want,
                                         key=["db-sequence"] + why[0],
                                         what="vector {} solved with {} at position {} of the history {} (select={} ranking={}): {}".format(
                                             want, name, pos, list(order), sel, rk, why[1])))
    # the same history through the imputer entry point (what the pipeline calls)
    from synrbl.SynRuleImputer.synthetic_rule_imputer import SyntheticRuleImputer as _Imp

    for order in (("shipped", "automated", "shipped"), ("automated", "shipped")):
        for pos, name in enumerate(order):
            rules_n = load_db(name)
            by_smiles_n, _ = db_index(name)
            f = dict(vt)
            if q:
                f["Q"] = q
            item = {"id": "0", "reactants": "CC", "products": "CC", "Unbalance": "Products", "Diff_formula": f,
                    "carbon_balance_check": "balanced"}
            try:
                o = _Imp.single_impute(item, rules_n, "all", "ion_priority")
            except Exception:
                continue
            n += 1
            added = o.get("products", "CC")[len("CC"):].lstrip(".")
            if not added:
                continue
            foreign = [t for t in added.split(".") if t not in by_smiles_n and not any(t in k.split(".") for k in by_smiles_n)]
            if foreign:
                bads.append(dict(sub="db-sequence", case={"vector": dict(vt), "q": q}, observed=added, expected=name,
                                 key=["db-sequence", "impute", "non-database-compound"],
                                 what="single_impute of {} with the {} database at position {} of the history {} added {} which that database does not contain".format(
                                     want, name, pos, list(order), foreign)))
    # the five charge variants of the vector through ONE imputer (one parallel_impute call), in
    # ascending and descending charge order: every row must get a completion for its own vector
    from synrbl.SynRuleImputer.synthetic_rule_imputer import SyntheticRuleImputer

    rules = load_db("shipped")
    by_smiles, _ = db_index("shipped")
    for qs in ((QS, tuple(reversed(QS))) if q == 0 else ()):
        items = []
        for qq in qs:
            f = dict(vt)
            if qq:
                f["Q"] = qq
            items.append({"id": str(len(items)), "reactants": "CC", "products": "CC", "Unbalance": "Products",
                          "Diff_formula": f, "carbon_balance_check": "balanced"})
        try:
            outs = SyntheticRuleImputer(rule_dict=rules, select="all", ranking="ion_priority").parallel_impute(items, n_jobs=1)
        except Exception:
            continue
        n += len(items)
        for qq, o in zip(qs, outs):
            added = o.get("products", "CC")[len("CC"):].lstrip(".")
            if not added:
                continue
            got = oracle.comp(added) or {}
            got.setdefault("Q", 0)
            w = dict(vt)
            w["Q"] = qq
            if {k: v for k, v in got.items() if v} != {k: v for k, v in w.items() if v}:
                bads.append(dict(sub="db-sequence", case={"vector": dict(vt), "q": q}, observed=added, expected=w,
                                 key=["db-sequence", "impute-batch", "sum"],
                                 what="one parallel_impute call over the charge variants {} of {}: the row with Q={} got {} ({})".format(
                                     list(qs), dict(vt), qq, added, got)))
    return n, bads


def spaces(tier):
    """[(db, vector tuple, full, charges)] in simplest-first order per family, and the
    bounds used"""
    if tier == "thorough":
        full_bound, bound = 4, 5
    else:
        full_bound, bound = 3, 3
    jobs = []
    for name in ("shipped", "automated"):
        els = db_elements(name)
        seen = set()
        for n in range(0, bound + 1):
            for t in layer(els, n):
                jobs.append((name, t, n <= full_bound, QS))
                seen.add(t)
        for t in hrich(els, bound):
            jobs.append((name, t, True, QS))
            seen.add(t)
        extra = set()
        for k, max_atoms in SUMS[(tier, name)]:
            for vt, q in compound_sums(name, k, max_atoms):
                if (vt in seen and q in QS) or (vt, q) in extra:
                    continue
                extra.add((vt, q))
                jobs.append((name, vt, True, (q,)))
    return jobs, full_bound, bound


def run(tier, seed):
    from checks import pipefam as pf
    from mc import boot

    boot.boot(controlled=True)
    res = Result("exploration")

    # (i)
    n_rec, bad_rec = check_records()
    for b in bad_rec:
        res.add(to_violation(b))

    # (ii)-(iv)
    jobs, full_bound, bound = spaces(tier)
    # costliest vectors first, small chunks: the search is exponential in the vector size
    order = sorted(jobs, key=lambda j: (-n_atoms(j[1]), j))
    r = pmap("checks.c08:check_vector", order, chunk=8, seed=seed, timeout=7200)
    tot = {}
    bads = []
    for cnt, bb in r:
        for k, v in cnt.items():
            tot[k] = tot.get(k, 0) + v
        bads.extend(bb)
    bads.sort(key=lambda b: (sum(b["case"]["vector"].values()), b["case"]["db"] != "shipped",
                             json.dumps(b["case"], sort_keys=True)))
    per_key = {}
    for b in bads:
        k = json.dumps(b["key"])
        per_key[k] = per_key.get(k, 0) + 1
        if per_key[k] <= 20:
            res.add(to_violation(b))

    # (ii') both databases in one process, one after the other
    seq_jobs = sorted({(j[1], q) for j in jobs if n_atoms(j[1]) <= 3 for q in j[3]})
    rs = pmap("checks.c08:db_sequence", seq_jobs, chunk=64, seed=seed, timeout=7200)
    tot["db_sequence_calls"] = sum(n for n, _ in rs)
    for _, bb in rs:
        for b in bb:
            k = json.dumps(b["key"])
            per_key[k] = per_key.get(k, 0) + 1
            if per_key[k] <= 20:
                res.add(to_violation(b))

    # (v)
    if tier == "thorough":
        rxns = pf.rxn_universe(pf.A01, 2)
    else:
        rxns = pf.rxn_universe(pf.A01[:8], 2)
    rxns = pf.dedupe(list(rxns) + HALOGEN_RXNS)
    batches = [rxns[i:i + 20] for i in range(0, len(rxns), 20)]
    # rule-based rows of dict inputs that bring their own (1-based / reversed / textual) id column
    batches += [u[1] for u in pf.ids_universes() if u[2] == {}]
    pr = pmap("checks.c08:pipe_batch", batches, chunk=1, seed=seed, timeout=7200)
    n_rows = sum(x["n"] for x in pr)
    rb_rows = set()
    n_templ = 0
    pkeys = {}
    for x in pr:
        rb_rows.update(x["rule_based"])
        n_templ += x["template"]
        for b in x["bads"]:
            v = to_violation(b)
            k = json.dumps(v.key)
            pkeys[k] = pkeys.get(k, 0) + 1
            if pkeys[k] <= 3 and "index" in v.case and len(v.case["batch"]) > 1:
                single = Violation(v.sub, {"batch": [v.case["rxn"]], "index": 0, "rxn": v.case["rxn"]},
                                   v.observed, v.expected, v.key, v.what)
                if replay(single):
                    v = single
            if pkeys[k] <= 20:
                res.add(v)
            per_key[k] = per_key.get(k, 0) + 1

    ban, from_source = ban_list()
    if not from_source:
        res.observations.append("ban list could not be read from rule_based.py; the copy {} was used".format(ban))
    if tot.get("dropped"):
        res.observations.append("{} single_impute calls returned no new_reaction although match() had a "
                                "non-empty first completion".format(tot["dropped"]))
    if tot.get("uncertain_changed"):
        res.observations.append("{} rejected (uncertain) reactions were changed by fit in a way that alters "
                                "products-reactants (harmless: they are discarded)".format(tot["uncertain_changed"]))
    for name in ("shipped", "automated"):
        wrong = [(rr.get("formula"), rr.get("smiles")) for rr in load_db(name)
                 if _formula_mismatch(rr)]
        if wrong:
            res.observations.append("{} database: formula label disagrees with the SMILES (not part of C08): {}".format(name, wrong))

    n_vec = tot.get("vectors", 0)
    res.coverage = {
        "evaluations": n_rec + tot.get("match", 0) + tot.get("impute", 0) + tot.get("fit", 0) + n_rows,
        "distinct_nontrivial": tot.get("nontrivial", 0) + len(rb_rows),
        "rule": "every record of both rule databases; every imbalance vector with <= {b} atoms over "
                "each database's own element set ({ns} elements shipped, {na} automated) x Q in -2..2, "
                "plus H4..H8 with <= 2 other atoms, through match() for select all/best x rankings "
                "{rk} (for vectors of more than {fb} atoms for which the unranked select=all search "
                "returns no completion the other configurations and the imputer, which repeat "
                "the same depth-first search, are skipped), sums of up to {ks} database compounds with their own "
                "charge (size limits {sm}), through "
                "single_impute for both sides (configs {ic}, bases {bs}) and RuleConstraint.fit with "
                "the ban list of rule_based.py; every reaction L>>R with L,R multisets of size 1..2 "
                "over the pipeline alphabet plus {nh} halogen-elimination reactions through "
                "Balancer.rebalance.  Non-trivial = distinct (database, vector, charge) for which at "
                "least one non-empty completion was returned + distinct inputs returned solved by the "
                "rule-based stage without a redox template.".format(
                    b=bound, fb=full_bound, ns=len(db_elements("shipped")), na=len(db_elements("automated")),
                    rk=list(RANKINGS), ks=max(k for k, _ in SUMS[(tier, "shipped")]),
                    sm={n: list(SUMS[(tier, n)]) for n in ("shipped", "automated")}, ic=list(IMPUTE_CONFIGS), bs=list(BASES), nh=len(HALOGEN_RXNS)),
        "samples": [
            {"db": jobs[1][0], "vector": dict(jobs[1][1])},
            {"db": jobs[len(jobs) // 3][0], "vector": dict(jobs[len(jobs) // 3][1])},
            {"db": jobs[-1][0], "vector": dict(jobs[-1][1])},
            rxns[len(rxns) // 2],
        ] + sorted(rb_rows)[:2],
        "records": n_rec,
        "vectors": n_vec,
        "vectors_with_completion": tot.get("nontrivial", 0),
        "match_calls": tot.get("match", 0),
        "completions_checked": tot.get("completions", 0),
        "impute_calls": tot.get("impute", 0),
        "imputed_reactions": tot.get("imputed", 0),
        "fit_calls": tot.get("fit", 0),
        "fit_certain": tot.get("certain", 0),
        "fit_uncertain": tot.get("uncertain", 0),
        "max_atoms_bound": bound,
        "max_atoms_bound_all_configurations": full_bound,
        "hrich_max_H": 8,
        "compound_sum_limits": {n: [list(x) for x in SUMS[(tier, n)]] for n in ("shipped", "automated")},
        "pipeline_rows": n_rows,
        "pipeline_rule_based_rows": len(rb_rows),
        "pipeline_template_rows_skipped": n_templ,
        "violating_cases_per_key": per_key,
        "exhaustive": True,
    }
    res.assumptions = [
        "RDKit's SMILES parser and valence model give the reference composition",
        "imbalance vectors have non-negative element counts (the comparator's difference formula)",
        "fit is judged on difference preservation: products-reactants of an accepted reaction must "
        "be what it was before fit (equivalent to 'balanced stays balanced' for any base reaction)",
    ]
    return res


def _formula_mismatch(rec):
    """the free-text formula label names other elements than the SMILES has (observation)"""
    import re

    f = rec.get("formula") or ""
    c = oracle.comp(rec.get("smiles") or "")
    if c is None:
        return False
    els = set(re.findall(r"[A-Z][a-z]?", f))
    return bool(els) and els != {k for k in c if k != "Q"}


def replay(v):
    from mc import boot

    boot.boot(controlled=True)
    out = []
    if v.sub == "db-record":
        _, bads = check_records()
        for b in bads:
            if b["case"]["db"] == v.case["db"] and b["case"]["index"] == v.case["index"]:
                out.append(to_violation(b))
    elif v.sub in ("matcher", "impute", "fit"):
        vt = tuple(sorted((k, int(n)) for k, n in v.case["vector"].items()))
        _, bads = check_vector((v.case["db"], vt, True, (int(v.case["q"]),)))
        for b in bads:
            w = to_violation(b)
            if w.sub == v.sub and w.key == v.key and all(
                w.case.get(k) == v.case.get(k) for k in ("select", "ranking", "side", "base")
            ):
                out.append(w)
    elif v.sub == "db-sequence":
        vt = tuple(sorted((k, int(n)) for k, n in v.case["vector"].items()))
        _, bads = db_sequence((vt, int(v.case["q"])))
        for b in bads:
            w = to_violation(b)
            if w.key == v.key:
                out.append(w)
                break
    elif v.sub == "pipeline":
        r = pipe_batch(v.case["batch"], fresh=True)
        for b in r["bads"]:
            w = to_violation(b)
            if w.key == v.key and ("index" not in v.case or w.case.get("index") == v.case["index"]):
                out.append(w)
    return out
