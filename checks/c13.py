"""C13 — the confidence threshold only demotes low-confidence MCS results.

E1 over (reaction, threshold): thresholds are {0, 0.5, 1} plus every observed confidence,
both of its floating-point neighbours and c +- 1e-3.  Two levels:
  pipeline   whole Balancer.rebalance runs per threshold, rows compared with the t=0 run;
  predictor  the rows that reach ConfidencePredictor.predict are captured from a real run
             and predict() is re-executed on deep copies for every threshold (cheap, so the
             complete threshold set is applied to every captured row).
"""

import copy
import math

from checks import pipefam as pf
from mc import pipeline
from mc.pool import pmap
from mc.report import Result, Violation

PROPERTY = "C13"

MCS_SET = [
    "CC(=O)OCC>>CC(=O)O", "CC(=O)OC=C>>CC(=O)O", "CC(C)(C)OC(=O)NCc1ccccc1>>NCc1ccccc1",
    "COC(=O)CCNC(=O)OCc1ccccc1>>COC(=O)CCN", "CCOC(=O)CC(=O)OCC>>OC(=O)CC(=O)O",
    "CC(=O)Oc1ccccc1C(=O)O>>Oc1ccccc1C(=O)O", "C[Si](C)(C)OCc1ccccc1>>OCc1ccccc1",
    "CC(=O)NCc1ccccc1>>NCc1ccccc1", "CCCl>>CC", "CCOC(=O)C1CCCC1=O>>O=C1CCCC1",
    "COc1ccccc1>>Oc1ccccc1", "CC(=O)OCC.CCC>>CC(=O)O.CCC",
    "CS(=O)(=O)OCCc1ccccc1.[N-]=[N+]=[N-]>>[N-]=[N+]=NCCc1ccccc1",
    "CC(C)(C)[Si](C)(C)OCCc1ccccc1>>OCCc1ccccc1",
]


def threshold_set(confs, wide=True):
    ts = {0.0, 0.5, 1.0}
    for c in confs:
        cand = [c, math.nextafter(c, 0.0), math.nextafter(c, 1.0)]
        if wide:
            cand += [c - 1e-3, c + 1e-3]
        for t in cand:
            if 0.0 <= t <= 1.0:
                ts.add(t)
    return sorted(ts)


def names_threshold(issue, t):
    if not isinstance(issue, str) or "threshold" not in issue.lower():
        return False
    forms = {"{:.2%}".format(t), "{:.0%}".format(t), "{:.1%}".format(t), "{:g}".format(t), repr(t),
             "{:.2f}".format(t), "{:.3f}".format(t)}
    return any(f in issue for f in forms)


def compare_rows(rx, base, row, t):
    """oracle for one row at threshold t against the same row at threshold 0"""
    out = []
    if base.get("solved_by") == "mcs-based":
        c0, c = base.get("confidence"), row.get("confidence")
        if not isinstance(c, (int, float)) or not (0.0 <= c <= 1.0):
            out.append((["confidence-range"], "confidence {!r} outside [0,1]".format(c)))
            return out
        if c != c0:
            out.append((["confidence-depends-on-threshold"],
                        "confidence {} at t={} but {} at t=0".format(c, t, c0)))
        want = c >= t
        if bool(row.get("solved")) != want:
            out.append((["solved-iff-confidence>=t", "solved" if row.get("solved") else "unsolved"],
                        "confidence {} threshold {!r}: solved={}".format(c, t, row.get("solved"))))
        if not want:
            if row.get("solved_by") != "mcs-based":
                out.append((["demoted-method-lost"], "demoted row has solved_by {!r}".format(row.get("solved_by"))))
            if not names_threshold(row.get("issue"), t):
                out.append((["demoted-issue"], "demoted row issue {!r} does not name threshold {!r}".format(row.get("issue"), t)))
        elif row != base:
            out.append((["kept-row-differs"], "row kept solved at t={} differs from t=0 row".format(t)))
    else:
        if row != base:
            out.append((["non-mcs-row-depends-on-threshold", base.get("solved_by")],
                        "row of {} changes with t={}: {} vs {}".format(rx, t, row, base)))
        if row.get("solved") and not base.get("solved"):
            out.append((["not-monotone"], "raising t solved a row"))
    return out


def pipeline_job(job):
    """worker: one batch at a list of thresholds; the t=0 run is the reference"""
    rxns, ts = job["rxns"], job["ts"]
    base = pipeline.run({"rxns": rxns, "threshold": 0})
    bad, n, nontriv = [], 0, 0
    if base["rows"] is None or len(base["rows"]) != len(rxns):
        return {"n": 0, "bad": [{"key": ["row-count"], "what": "baseline run lost rows", "rxn": rxns, "t": 0, "index": 0}], "nt": 0}
    for t in ts:
        out = pipeline.run({"rxns": rxns, "threshold": t})
        if out["rows"] is None or len(out["rows"]) != len(rxns):
            bad.append({"key": ["row-count"], "what": "run at t={} lost rows".format(t), "rxn": rxns, "t": t, "index": 0})
            continue
        for i, (rx, b, r) in enumerate(zip(rxns, base["rows"], out["rows"])):
            n += 1
            if b.get("solved_by") == "mcs-based":
                nontriv += 1
            for key, what in compare_rows(rx, b, r, t):
                bad.append({"key": key, "what": "{} @t={!r}: {}".format(rx, t, what), "rxn": rxns, "t": t, "index": i})
    return {"n": n, "bad": bad, "nt": nontriv}


def confidences_job(rxns):
    out = pipeline.run({"rxns": rxns, "threshold": 0})
    return [r.get("confidence") for r in (out["rows"] or []) if r.get("solved_by") == "mcs-based"]


def capture_predict_inputs(rxns):
    """Run the real pipeline once and return deep copies of the rows handed to
    ConfidencePredictor.predict."""
    b = pipeline.balancer()
    b.confidence_threshold = 0
    captured = []
    real = b.conf_predictor.predict

    def spy(reactions, stats=None, threshold=0):
        captured.append(copy.deepcopy(reactions))
        return real(reactions, stats=stats, threshold=threshold)

    b.conf_predictor.predict = spy
    try:
        b.rebalance(list(rxns), output_dict=True)
    finally:
        del b.conf_predictor.predict
    return b, (captured[0] if captured else [])


def predictor_job(job):
    """worker: component-level exhaustive thresholds on captured predictor inputs"""
    rxns, wide = job["rxns"], job["wide"]
    b, rows = capture_predict_inputs(rxns)
    if not rows:
        return {"n": 0, "bad": [], "nt": 0, "ts": 0}

    def run_at(t):
        rs = copy.deepcopy(rows)
        stats = {}
        b.conf_predictor.predict(rs, stats=stats, threshold=t)
        return rs, stats

    base, _ = run_at(0)
    confs = sorted({r.get("confidence") for r in base if r.get("solved_by") == "mcs-based" and r.get("solved")})
    ts = threshold_set(confs, wide)
    keep = ["reaction", "input_reaction", "solved", "solved_by", "confidence", "issue", "rules"]
    bad, n, nt = [], 0, 0
    for t in ts:
        rs, stats = run_at(t)
        n_solved = 0
        for i, (b0, r) in enumerate(zip(base, rs)):
            n += 1
            b0v = {k: pipeline.norm_value(b0.get(k)) for k in keep if k in b0}
            rv = {k: pipeline.norm_value(r.get(k)) for k in keep if k in r}
            if b0v.get("solved_by") == "mcs-based" and b0v.get("solved"):
                nt += 1
            if rv.get("solved_by") == "mcs-based" and rv.get("solved"):
                n_solved += 1
            for key, what in compare_rows(b0v.get("input_reaction"), b0v, rv, t):
                bad.append({"key": key + ["predictor"], "what": "{} @t={!r}: {}".format(b0v.get("input_reaction"), t, what),
                            "rxn": rxns, "t": t, "index": i})
        if stats.get("confident_cnt") != n_solved:
            bad.append({"key": ["confident_cnt", "predictor"], "what": "confident_cnt {} but {} rows kept at t={!r}".format(
                stats.get("confident_cnt"), n_solved, t), "rxn": rxns, "t": t, "index": 0})
    return {"n": n, "bad": bad, "nt": nt, "ts": len(ts)}


def cli_job(rxns):
    """`python -m synrbl run --min-confidence t` (argparse entry, in process): the output file
    is read back; thresholds = every confidence as it is printed in the t=0 output file (and
    its 3-decimal form).  A row is solved exactly when the confidence the file reports is at
    least t; the reported confidence does not depend on t."""
    import contextlib
    import csv
    import io
    import os
    import shutil
    import tempfile

    import pandas as pd
    import synrbl.SynCmd as cmd

    d = tempfile.mkdtemp(prefix="c13cli_", dir="/dev/shm" if os.path.isdir("/dev/shm") else None)
    bad, n = [], 0
    try:
        src = os.path.join(d, "in.csv")
        with open(src, "w", newline="") as f:
            w = csv.writer(f)
            w.writerow(["reaction"])
            for r in rxns:
                w.writerow([r])

        def run_cli(t):
            dst = os.path.join(d, "out_{}.csv".format(repr(t)))
            sink = io.StringIO()
            with contextlib.redirect_stderr(sink), contextlib.redirect_stdout(sink):
                args = cmd.setup_argparser().parse_args(["run", src, "-o", dst, "-p", "1", "--min-confidence", repr(t)])
                args.func(args)
            return pd.read_csv(dst).to_dict("records")

        base = run_cli(0.0)
        confs = sorted({float(r["confidence"]) for r in base if r.get("solved_by") == "mcs-based" and r["confidence"] == r["confidence"]})
        ts = sorted({t for c in confs for t in (c, round(c, 3)) if 0 <= t <= 1})
        for t in ts:
            rows = run_cli(t)
            if len(rows) != len(base):
                bad.append({"key": ["cli", "row-count"], "what": "CLI run at --min-confidence {!r} wrote {} rows".format(t, len(rows)), "t": t})
                continue
            for i, (b0, r) in enumerate(zip(base, rows)):
                n += 1
                if b0.get("solved_by") != "mcs-based":
                    continue
                c = float(r["confidence"])
                if c != float(b0["confidence"]):
                    bad.append({"key": ["cli", "confidence-depends-on-threshold"], "what": "row {}: confidence {} at t={!r}, {} at t=0".format(i, c, t, b0["confidence"]), "t": t})
                if bool(r["solved"]) != (c >= t):
                    bad.append({"key": ["cli", "solved-iff-confidence>=t"],
                                "what": "CLI --min-confidence {!r}: row {} ({}) reports confidence {!r} and solved={}".format(t, i, rxns[i], c, r["solved"]), "t": t})
        return {"n": n, "bad": bad[:6], "ts": len(ts)}
    finally:
        shutil.rmtree(d, ignore_errors=True)


def run(tier, seed):
    res = Result("exploration")
    rxns = pf.dedupe(MCS_SET + pf.HAND)
    batches = [rxns[i:i + 4] for i in range(0, len(rxns), 4)]
    confs = sorted({c for cs in pmap("checks.c13:confidences_job", batches, chunk=1, seed=seed) for c in cs
                    if isinstance(c, float)})
    ts = threshold_set(confs, wide=(tier == "thorough"))
    jobs = []
    tchunk = 6
    for b in batches:
        for i in range(0, len(ts), tchunk):
            jobs.append({"rxns": b, "ts": ts[i:i + tchunk]})
    r1 = pmap("checks.c13:pipeline_job", jobs, chunk=1, seed=seed, timeout=7200)
    # predictor level
    if tier == "thorough":
        src = [r for r in pf.corpus_reactions("reaction") if pf.in_domain(r)]
    else:
        src = pf.dedupe(pf.rxn_universe(pf.A01[:8], 2))
    pj = [{"rxns": src[i:i + 25], "wide": True} for i in range(0, len(src), 25)]
    r2 = pmap("checks.c13:predictor_job", pj, chunk=1, seed=seed, timeout=7200)
    cli_batches = [MCS_SET[i:i + 5] for i in range(0, len(MCS_SET) if tier == "thorough" else 10, 5)]
    r3 = pmap("checks.c13:cli_job", cli_batches, chunk=1, seed=seed, timeout=7200)
    for b, x in zip(cli_batches, r3):
        for v in x["bad"]:
            res.add(Violation("cli", {"rxns": b, "t": v["t"]}, None, None, v["key"], v["what"]))
    n = nt = 0
    n += sum(x["n"] for x in r3)
    for r in list(r1) + list(r2):
        n += r["n"]
        nt += r["nt"]
        for b in r["bad"]:
            res.add(Violation("threshold", {"rxns": b["rxn"], "t": b["t"], "index": b["index"],
                                            "level": "predictor" if "predictor" in b["key"] else "pipeline"},
                              None, None, b["key"], b["what"]))
    res.coverage = {
        "evaluations": n,
        "distinct_nontrivial": nt,
        "rule": "pipeline level: {} reactions x {} thresholds ({{0,0.5,1}} + every observed confidence, both float "
                "neighbours{}), each row compared with its t=0 row; predictor level: rows captured at "
                "ConfidencePredictor.predict from real runs over {} reactions, predict() re-executed for the complete "
                "per-batch threshold set; command line: --min-confidence at every confidence printed in the output file.  Non-trivial = (MCS-solved row, threshold) pairs.".format(
                    len(rxns), len(ts), ", c+-1e-3" if tier == "thorough" else "", len(src)),
        "samples": [{"rxn": rxns[0], "thresholds": ts[:8]}, {"confidences": confs}],
        "thresholds": len(ts),
        "distinct_confidences": len(confs),
        "pipeline_runs": len(jobs) * (tchunk + 1),
        "predictor_threshold_sets": sum(r.get("ts", 0) for r in r2),
        "exhaustive": True,
    }
    res.assumptions = ["thresholds outside the enumerated set are covered only through the order argument: "
                       "the verdict is a comparison c >= t and every float boundary of every observed c is enumerated"]
    return res


def replay(v):
    c = v.case
    if v.sub == "cli":
        x = cli_job(c["rxns"])
        return [Violation("cli", c, None, None, b["key"], b["what"]) for b in x["bad"] if b["key"] == v.key][:1]
    if c.get("level") == "predictor":
        r = predictor_job({"rxns": c["rxns"], "wide": True})
    else:
        r = pipeline_job({"rxns": c["rxns"], "ts": [c["t"]]})
    out = []
    for b in r["bad"]:
        if b["key"] == v.key and b["t"] == c["t"] and b["index"] == c["index"]:
            out.append(Violation("threshold", c, None, None, b["key"], b["what"]))
    return out
