"""C09 — fragment merging conserves atoms and its reported rules explain the result.

E1: bounded-exhaustive enumeration of (molecule, acyclic single heavy-atom bond) cuts.

 roundtrip  cut the bond, cap both ends with hydrogen, hand the two fragments to
            `merge()` the way `build_compounds` does (fragment SMILES, boundary index +
            symbol in the fragment, src_mol = the uncut molecule, neighbor index/symbol =
            the atom on the other side of the cut in the source molecule), both compound
            orders; the merged molecule must be the uncut molecule (stereo ignored) unless a
            documented restriction rule is reported, then the two fragments stay apart.
 single     every fragment alone (one compound, one boundary): the result is the fragment
            bonded at its boundary atom to exactly the compound of the reported expand rule
            (expected product built here with RDKit only), unbonded when a restriction rule
            is reported, unchanged when no rule is reported.
 cross      every ordered pair of fragments of different cuts: general invariants only.
 multi      the middle fragment of every pair of cuts (two open boundaries): alone, with a
            boundary-less spectator compound (water gets its boundary, as in
            build_compounds), and with one of its end fragments, all compound orders;
            general invariants with rule applications counted with multiplicity, and the
            composition/molecule count implied by the reported rules.
 targeted   carbonyl/hydroxyl oxygen x phosphorus (with and without P=O) and vinyl carbon x
            diazo, both orders, so that the three phosphorus rules and the nitrogen rule fire:
            general invariants only.

General invariants of every merge result: the result SMILES parses, no boundary is left,
carbon count == carbon count of the fragments, heavy atoms == fragments + compounds of the
reported expand rules, every reported rule name is in the rule files.
"""

import json
import os
from collections import Counter

from rdkit import Chem

from mc import oracle, universe
from mc.boot import ROOT
from mc.pool import pmap
from mc.report import Result, Violation

PROPERTY = "C09"

SINGLE = Chem.BondType.SINGLE

# The restriction rules as documented in merge_rules.json (rules without a "bond"): the
# pair of boundary elements they may keep apart.
_HALO = frozenset(["F", "Cl", "Br", "I"])
_NOX = frozenset(["N", "O", "F", "Cl", "Br", "I"])
RESTRICTIONS = {
    "S bond restriction": (frozenset(["S"]), _HALO),
    "bond restriction": (_NOX, _NOX),
}
# documented refusals of merge(): accepted outcomes in single/cross, never in roundtrip
REFUSAL_TYPES = ("NotImplementedError", "NoExpandRule", "NoMergeRuleError")
REFUSAL_VALUE_ERRORS = ("No merge rule found.",)

MAX_BAD_PER_ITEM = 24
MAX_BAD_PER_KEY = 40

_RULES = None


def rule_tables():
    """The three rule files of the tree under test, read here (not through synrbl)."""
    global _RULES
    if _RULES is None:
        d = os.path.join(ROOT, "synrbl", "SynMCSImputer")
        t = {}
        for kind, fn in (
            ("MergeRule", "merge_rules.json"),
            ("ExpandRule", "expand_rules.json"),
            ("CompoundRule", "compound_rules.json"),
        ):
            with open(os.path.join(d, fn)) as f:
                t[kind] = {r.get("name", "unnamed"): r for r in json.load(f)}
        _RULES = t
    return _RULES


# ------------------------------------------------------------------ reference helpers


def _heavy(m):
    return Counter(a.GetSymbol() for a in m.GetAtoms() if a.GetAtomicNum() > 1)


def _canon_ns(smiles):
    return oracle.canon(smiles, stereo=False)


def _mols_ns(smiles):
    return oracle.mols(smiles, stereo=False)


def neutral_form(smiles):
    """Canonical stereo-free SMILES after every bonded +/- pair of formal charges is
    written as a higher bond order (C[I+][O-] -> CI=O, [N+](=O)[O-] -> N(=O)=O).  RDKit's
    sanitiser rewrites some hypervalent forms into the charge-separated ones depending on
    how the molecule was built; the two spellings are the same molecule and the same
    connectivity, so comparisons fall back to this form.  None if unparsable."""
    m = oracle.parse(smiles)
    if m is None:
        return None
    rw = Chem.RWMol(m)
    for a in rw.GetAtoms():
        a.SetAtomMapNum(0)
        h = a.GetTotalNumHs()
        a.SetNoImplicit(True)
        a.SetNumExplicitHs(h)
    up = {Chem.BondType.SINGLE: Chem.BondType.DOUBLE, Chem.BondType.DOUBLE: Chem.BondType.TRIPLE}
    changed = True
    while changed:
        changed = False
        for b in rw.GetBonds():
            if b.GetIsAromatic() or b.GetBondType() not in up:
                continue
            a1, a2 = b.GetBeginAtom(), b.GetEndAtom()
            q1, q2 = a1.GetFormalCharge(), a2.GetFormalCharge()
            if q1 * q2 < 0:
                a1.SetFormalCharge(q1 - (1 if q1 > 0 else -1))
                a2.SetFormalCharge(q2 - (1 if q2 > 0 else -1))
                b.SetBondType(up[b.GetBondType()])
                changed = True
                break
    out = rw.GetMol()
    out.UpdatePropertyCache(strict=False)
    return Chem.MolToSmiles(out, isomericSmiles=False)


def same_molecule(got_smiles, want_canon):
    """-> "same" | "same-modulo-charge-separation" | None"""
    if _canon_ns(got_smiles) == want_canon:
        return "same"
    a, b = neutral_form(got_smiles), neutral_form(want_canon)
    if a is not None and a == b:
        return "same-modulo-charge-separation"
    return None


def cuttable_bonds(m):
    out = []
    for b in m.GetBonds():
        if b.GetBondType() != SINGLE or b.IsInRing() or b.GetIsAromatic():
            continue
        a1, a2 = b.GetBeginAtom(), b.GetEndAtom()
        if a1.GetAtomicNum() <= 1 or a2.GetAtomicNum() <= 1:
            continue
        out.append((a1.GetIdx(), a2.GetIdx()))
    return out


_RMH = None


def _rmh_params():
    global _RMH
    if _RMH is None:
        p = Chem.RemoveHsParameters()
        p.removeDefiningBondStereo = True
        p.removeWithWedgedBond = True
        p.removeDegreeZero = False
        p.removeIsotopes = False
        p.showWarnings = False
        _RMH = p
    return _RMH


def cut(m, i, j, inherit=False):
    """Cut bond i-j of `m` (single; double only for the targeted library), cap both ends
    with as many H as the bond order.  Returns the two fragment records
    [(smiles, boundary_index_in_parsed_smiles, boundary_symbol), ...] for the side of i and
    the side of j, or None when the capped fragments are not a valid decomposition
    (harness self-check: compositions must add up to M + H2 per bond order)."""
    bond = m.GetBondBetweenAtoms(i, j)
    if bond is None or bond.GetBondType() not in (SINGLE, Chem.BondType.DOUBLE):
        return None
    n_cap = 1 if bond.GetBondType() == SINGLE else 2
    rw = Chem.RWMol(m)
    rw.RemoveBond(i, j)
    for k in (i, j):
        for _ in range(n_cap):
            h = rw.AddAtom(Chem.Atom(1))
            rw.AddBond(k, h, SINGLE)
    rw.GetAtomWithIdx(i).SetIntProp("c09side", 0)
    rw.GetAtomWithIdx(j).SetIntProp("c09side", 1)
    whole = rw.GetMol()
    try:
        Chem.SanitizeMol(whole)
        frags = Chem.GetMolFrags(whole, asMols=True, sanitizeFrags=True)
    except Exception:
        return None
    if len(frags) != 2:
        return None
    out = [None, None]
    for f in frags:
        try:
            f = Chem.RemoveHs(f, _rmh_params())
        except Exception:
            return None
        side = None
        bidx = None
        for a in f.GetAtoms():
            if a.HasProp("c09side"):
                side = a.GetIntProp("c09side")
                bidx = a.GetIdx()
                a.ClearProp("c09side")
        if side is None or out[side] is not None:
            return None
        smi = Chem.MolToSmiles(f, canonical=not inherit)
        order = [int(x) for x in f.GetProp("_smilesAtomOutputOrder").strip("[]").split(",") if x]
        pos = order.index(bidx)
        back = Chem.MolFromSmiles(smi)
        if back is None or back.GetNumAtoms() != f.GetNumAtoms():
            return None
        sym = back.GetAtomWithIdx(pos).GetSymbol()
        if sym != f.GetAtomWithIdx(bidx).GetSymbol():
            return None
        out[side] = (smi, pos, sym)
    if out[0] is None or out[1] is None:
        return None
    # harness self-check: fragments == M + H2
    want = oracle.comp_add(oracle.comp_mol(m), {"H": 2 * n_cap})
    got = oracle.comp_add(oracle.comp(out[0][0]), oracle.comp(out[1][0]))
    if want != got:
        return None
    return out


def bond_product(frag_smiles, idx, comp_smiles, cidx, order):
    """Reference: the fragment bonded (bond order `order`) at atom idx to atom cidx of the
    compound, `order` hydrogens taken from each end.  Canonical stereo-free SMILES or
    None when an end has too few hydrogens."""
    a = Chem.AddHs(Chem.MolFromSmiles(frag_smiles))
    b = Chem.AddHs(Chem.MolFromSmiles(comp_smiles))
    off = a.GetNumAtoms()
    rw = Chem.RWMol(Chem.CombineMols(a, b))
    ends = (idx, off + cidx)
    drop = []
    for e in ends:
        hs = sorted(
            n.GetIdx()
            for n in rw.GetAtomWithIdx(e).GetNeighbors()
            if n.GetAtomicNum() == 1 and n.GetIsotope() == 0 and n.GetDegree() == 1
        )
        if len(hs) < order:
            return None
        drop.extend(hs[-order:])
    rw.AddBond(ends[0], ends[1], {1: SINGLE, 2: Chem.BondType.DOUBLE}[order])
    for h in sorted(drop, reverse=True):
        rw.RemoveAtom(h)
    m = rw.GetMol()
    try:
        Chem.SanitizeMol(m)
        m = Chem.RemoveHs(m, _rmh_params())
    except Exception:
        return None
    return _canon_ns(Chem.MolToSmiles(m))


# ------------------------------------------------------------------ the code under test


def do_merge(parts):
    """parts: [(frag_smiles, boundary_idx, boundary_symbol, src_smiles, nbr_idx, nbr_symbol)]
    -> outcome dict.  Built exactly like mcs_based_method.build_compounds."""
    from synrbl.SynMCSImputer.structure import CompoundSet
    from synrbl.SynMCSImputer.merge import merge

    cset = CompoundSet()
    for fs, bi, bs, src, ni, ns in parts:
        c = cset.add_compound(fs, src_mol=src)
        c.add_boundary(bi, symbol=bs, neighbor_index=ni, neighbor_symbol=ns)
    try:
        r = merge(cset)
        return {
            "smiles": r.smiles,
            "rules": [[type(x).__name__, x.name] for x in r.rules],
            "open": len(r.boundaries),
        }
    except Exception as e:  # classified by the caller
        msg = [ln.strip() for ln in str(e).splitlines() if ln.strip()]
        return {"exc": [type(e).__name__, " | ".join(msg[:3])[:300]]}


def is_refusal(exc):
    t, msg = exc
    if t in REFUSAL_TYPES:
        return True
    return t == "ValueError" and msg in REFUSAL_VALUE_ERRORS


def invariants(out, frag_smiles):
    """General invariants.  Returns (key, what) of the first one broken, or None."""
    names = _merge_names(out)
    tables = rule_tables()
    res = oracle.parse(out["smiles"])
    if res is None:
        return ["result-not-sanitizable"] + names, "result {!r} does not parse".format(
            out["smiles"]
        )
    heavy = Counter()
    n_c = 0
    for fs in frag_smiles:
        fm = oracle.parse(fs)
        heavy.update(_heavy(fm))
        n_c += sum(1 for a in fm.GetAtoms() if a.GetAtomicNum() == 6)
    for kind, name in out["rules"]:
        if kind not in tables or name not in tables[kind]:
            return ["unknown-rule", name], "reported rule {!r} ({}) is not in the rule files".format(
                name, kind
            )
        if kind == "ExpandRule":
            cm = oracle.parse(tables[kind][name]["compound"]["smiles"])
            heavy.update(_heavy(cm))
    got = _heavy(res)
    if got != heavy:
        return ["atoms-not-conserved"] + names, "heavy atoms {} != fragments+rule compounds {}".format(
            dict(sorted(got.items())), dict(sorted(heavy.items()))
        )
    got_c = sum(1 for a in res.GetAtoms() if a.GetAtomicNum() == 6)
    if got_c != n_c:
        return ["carbon-count"] + names, "carbon count {} != {}".format(got_c, n_c)
    if out["open"]:
        return ["boundary-left-open"] + names, "{} boundaries left open".format(out["open"])
    return None


def _merge_names(out):
    """names of the reported merge rules: the rule part of a root-cause key"""
    return [n for k, n in out["rules"] if k == "MergeRule"]


def _restriction(out, sym_a, sym_b):
    """-> (rule name or None, misapplied?)"""
    for kind, name in out["rules"]:
        if kind == "MergeRule" and name in RESTRICTIONS:
            s1, s2 = RESTRICTIONS[name]
            ok = (sym_a in s1 and sym_b in s2) or (sym_b in s1 and sym_a in s2)
            return name, not ok
    return None, False


def _bad(sub, case, observed, expected, key, what):
    return {"sub": sub, "case": case, "observed": observed, "expected": expected,
            "key": key, "what": what}


# ------------------------------------------------------------------ sub-checks


def roundtrip_case(src, m, i, j, recs, first, fragmode):
    """One round trip.  recs = cut(m, i, j).  -> (outcome, bad or None)"""
    case = {"src": src, "cut": [i, j], "first": first, "frag": fragmode}
    si, sj = m.GetAtomWithIdx(i).GetSymbol(), m.GetAtomWithIdx(j).GetSymbol()
    pa = (recs[0][0], recs[0][1], recs[0][2], src, j, sj)
    pb = (recs[1][0], recs[1][1], recs[1][2], src, i, si)
    parts = [pa, pb] if first == 0 else [pb, pa]
    out = do_merge(parts)
    frs = [recs[0][0], recs[1][0]]
    if "exc" in out:
        return out, _bad("roundtrip", case, out, "merged molecule",
                         ["exception", out["exc"][0]],
                         "merge of {} + {} (cut of {}) raised {}: {}".format(
                             frs[0], frs[1], src, out["exc"][0], out["exc"][1]))
    inv = invariants(out, frs)
    if inv:
        return out, _bad("roundtrip", case, out, None, inv[0],
                         "cut {}-{} of {}: {}".format(i, j, src, inv[1]))
    names = _merge_names(out)
    rname, mis = _restriction(out, si, sj)
    if rname is not None:
        if mis:
            return out, _bad("roundtrip", case, out, "bond {}-{} restored".format(si, sj),
                             ["restriction-misapplied", rname],
                             "rule {!r} kept {}-{} apart in {}".format(rname, si, sj, src))
        want = _mols_ns(frs[0]) + _mols_ns(frs[1])
        if _mols_ns(out["smiles"]) != want:
            return out, _bad("roundtrip", case, out, sorted(want.elements()),
                             ["restricted-not-unbonded", rname],
                             "restriction rule reported but result {} is not the two "
                             "fragments".format(out["smiles"]))
        return out, None
    want = oracle.canon_mol(m, stereo=False)
    same = same_molecule(out["smiles"], want)
    if same == "same-modulo-charge-separation":
        out["modq"] = True
    if same is None:
        return out, _bad("roundtrip", case, out, want, ["roundtrip-mismatch"] + names,
                         "cut {}-{} of {} merged back to {} (rules {})".format(
                             i, j, src, out["smiles"], names))
    return out, None


def single_case(src, m, i, j, recs, side, fragmode):
    """One fragment alone: side 0 = fragment containing i."""
    case = {"src": src, "cut": [i, j], "side": side, "frag": fragmode}
    b, n = (i, j) if side == 0 else (j, i)
    rec = recs[side]
    nsym = m.GetAtomWithIdx(n).GetSymbol()
    out = do_merge([(rec[0], rec[1], rec[2], src, n, nsym)])
    if "exc" in out:
        if is_refusal(out["exc"]):
            return out, None
        return out, _bad("single", case, out, "completed fragment",
                         ["exception", out["exc"][0]],
                         "completion of {} (from {}) raised {}: {}".format(
                             rec[0], src, out["exc"][0], out["exc"][1]))
    inv = invariants(out, [rec[0]])
    if inv:
        return out, _bad("single", case, out, None, inv[0],
                         "fragment {}@{} of {}: {}".format(rec[0], rec[1], src, inv[1]))
    names = [x for _, x in out["rules"]]
    tables = rule_tables()
    exp = [x for k, x in out["rules"] if k == "ExpandRule"]
    mrg = [x for k, x in out["rules"] if k == "MergeRule"]
    if not out["rules"]:
        want = _canon_ns(rec[0])
        if _canon_ns(out["smiles"]) != want:
            return out, _bad("single", case, out, want, ["single-mismatch"],
                             "no rule reported but {} became {}".format(rec[0], out["smiles"]))
        return out, None
    if len(exp) != 1 or len(mrg) != 1 or len(out["rules"]) != 2:
        return out, _bad("single", case, out, "[expand rule, merge rule]",
                         ["single-unexpected-rules"] + sorted(k for k, _ in out["rules"]),
                         "completion of one boundary reported rules {}".format(names))
    comp = tables["ExpandRule"][exp[0]]["compound"]
    cm = oracle.parse(comp["smiles"])
    csym = cm.GetAtomWithIdx(int(comp["index"])).GetSymbol()
    rname, mis = _restriction(out, rec[2], csym)
    if rname is not None:
        if mis:
            return out, _bad("single", case, out, "bond {}-{}".format(rec[2], csym),
                             ["restriction-misapplied", rname],
                             "rule {!r} kept {}-{} apart".format(rname, rec[2], csym))
        want = _mols_ns(rec[0]) + _mols_ns(comp["smiles"])
        if _mols_ns(out["smiles"]) != want:
            return out, _bad("single", case, out, sorted(want.elements()),
                             ["restricted-not-unbonded", rname],
                             "restriction rule reported but result is {}".format(out["smiles"]))
        return out, None
    bond = tables["MergeRule"][mrg[0]].get("bond")
    order = {"single": 1, "double": 2}.get(bond)
    if order is None:
        return out, _bad("single", case, out, "a bond-forming merge rule",
                         ["restriction-misapplied", mrg[0]],
                         "undocumented bond-less rule {!r} reported".format(mrg[0]))
    want = bond_product(rec[0], rec[1], comp["smiles"], int(comp["index"]), order)
    if want is None:
        out["noref"] = True
        return out, None
    same = same_molecule(out["smiles"], want)
    if same == "same-modulo-charge-separation":
        out["modq"] = True
    if same is None:
        return out, _bad("single", case, out, want, ["single-mismatch"] + mrg,
                         "{}@{} + {} by {} gave {} not {}".format(
                             rec[0], rec[1], comp["smiles"], names, out["smiles"], want))
    return out, None


def _tally(acc, out):
    if "exc" in out:
        acc["exceptions"] += 1
        return
    for _, name in out["rules"]:
        acc["hist"][name] = acc["hist"].get(name, 0) + 1


def mol_item(item):
    """worker: all cuts of one spelled molecule: round trips (both orders) + singles."""
    src, fragmode = item
    acc = {"n": 0, "rt": 0, "single": 0, "hist": {}, "exceptions": 0, "bad": [],
           "skipped": 0, "rt_nontrivial": 0, "rt_nondefault": 0, "single_nontrivial": 0,
           "noref": 0, "bonds": 0, "nbad": 0, "modq": 0}
    m = Chem.MolFromSmiles(src)
    for i, j in cuttable_bonds(m):
        recs = cut(m, i, j, inherit=(fragmode == "inherit"))
        if recs is None:
            acc["skipped"] += 1
            continue
        acc["bonds"] += 1
        reached = False
        nondefault = False
        for first in (0, 1):
            out, bad = roundtrip_case(src, m, i, j, recs, first, fragmode)
            acc["n"] += 1
            acc["rt"] += 1
            _tally(acc, out)
            names = [n for k, n in out.get("rules", []) if k == "MergeRule"]
            reached = reached or bool(names)
            nondefault = nondefault or any(n != "default single bond" for n in names)
            if out.get("modq"):
                acc["modq"] += 1
            if bad:
                acc["nbad"] += 1
                if len(acc["bad"]) < MAX_BAD_PER_ITEM:
                    acc["bad"].append(bad)
        acc["rt_nontrivial"] += 1 if reached else 0
        acc["rt_nondefault"] += 1 if nondefault else 0
        for side in (0, 1):
            out, bad = single_case(src, m, i, j, recs, side, fragmode)
            acc["n"] += 1
            acc["single"] += 1
            _tally(acc, out)
            if any(k == "ExpandRule" for k, _ in out.get("rules", [])):
                acc["single_nontrivial"] += 1
            if out.get("noref"):
                acc["noref"] += 1
            if out.get("modq"):
                acc["modq"] += 1
            if bad:
                acc["nbad"] += 1
                if len(acc["bad"]) < MAX_BAD_PER_ITEM:
                    acc["bad"].append(bad)
    return acc


# ---- cross merges

_CROSS = {}


CROSS_ELEMENTS = {"U3": ["C", "N", "O", "S", "P", "Cl"], "U3q": ["C", "O", "S", "P", "Cl"]}


def cross_universe(name):
    """U(elements, 3, rings=False), taken from the cached 4-atom universe: every molecule
    of the smaller universe is generated on the way to the larger one and vice versa."""
    allowed = set(CROSS_ELEMENTS[name])
    out = []
    for s in universe.U(["C", "N", "O", "S", "P", "Cl"], 4, rings=False):
        m = Chem.MolFromSmiles(s)
        if m.GetNumAtoms() <= 3 and all(a.GetSymbol() in allowed for a in m.GetAtoms()):
            out.append(s)
    return out


def cross_records(name):
    """All fragment records (src, i, j, frag_smiles, bidx, bsym, nsym): the fragment of
    `src` that contains atom i after cutting i-j."""
    if name not in _CROSS:
        recs = []
        for src in cross_universe(name):
            m = Chem.MolFromSmiles(src)
            for i, j in cuttable_bonds(m):
                r = cut(m, i, j)
                if r is None:
                    continue
                recs.append((src, i, j, r[0][0], r[0][1], r[0][2],
                             m.GetAtomWithIdx(j).GetSymbol()))
                recs.append((src, j, i, r[1][0], r[1][1], r[1][2],
                             m.GetAtomWithIdx(i).GetSymbol()))
        _CROSS[name] = recs
    return _CROSS[name]


def _rec_case(r):
    if r[1] is None:  # explicit record of the targeted library
        return {"src": r[0], "frag": r[3], "bidx": r[4], "nidx": r[2]}
    return {"src": r[0], "cut": [r[1], r[2]]}


def _case_rec(c):
    """inverse of _rec_case (replay)"""
    m = Chem.MolFromSmiles(c["src"])
    if "frag" in c:
        f = Chem.MolFromSmiles(c["frag"])
        return (c["src"], None, c["nidx"], c["frag"], c["bidx"],
                f.GetAtomWithIdx(c["bidx"]).GetSymbol(),
                m.GetAtomWithIdx(c["nidx"]).GetSymbol())
    i, j = c["cut"]
    r = cut(m, i, j)
    if r is None:
        return None
    return (c["src"], i, j, r[0][0], r[0][1], r[0][2], m.GetAtomWithIdx(j).GetSymbol())


def cross_pair(ra, rb, sub="cross"):
    case = {"a": _rec_case(ra), "b": _rec_case(rb)}
    out = do_merge([(ra[3], ra[4], ra[5], ra[0], ra[2], ra[6]),
                    (rb[3], rb[4], rb[5], rb[0], rb[2], rb[6])])
    if "exc" in out:
        if is_refusal(out["exc"]):
            return out, None
        return out, _bad(sub, case, out, "merged compound or a documented refusal",
                         ["exception", out["exc"][0]],
                         "merge of {}@{} (from {}) + {}@{} (from {}) raised {}: {}".format(
                             ra[3], ra[4], ra[0], rb[3], rb[4], rb[0], out["exc"][0],
                             out["exc"][1]))
    inv = invariants(out, [ra[3], rb[3]])
    if inv:
        return out, _bad(sub, case, out, None, inv[0],
                         "{}@{} (from {}) + {}@{} (from {}): {}".format(
                             ra[3], ra[4], ra[0], rb[3], rb[4], rb[0], inv[1]))
    return out, None


def cross_row(item):
    """worker: fragment record #a against every record of a different cut."""
    name, a = item
    recs = cross_records(name)
    ra = recs[a]
    acc = {"n": 0, "hist": {}, "exceptions": 0, "bad": [], "nontrivial": 0,
           "nondefault": 0, "nbad": 0}
    per_key = {}
    for rb in recs:
        if rb[0] == ra[0] and {rb[1], rb[2]} == {ra[1], ra[2]}:
            continue
        out, bad = cross_pair(ra, rb)
        acc["n"] += 1
        _tally(acc, out)
        names = [n for k, n in out.get("rules", []) if k == "MergeRule"]
        if names:
            acc["nontrivial"] += 1
            if any(n != "default single bond" for n in names):
                acc["nondefault"] += 1
        if bad:
            acc["nbad"] += 1
            k = json.dumps(bad["key"])
            per_key[k] = per_key.get(k, 0) + 1
            if per_key[k] <= 3:
                acc["bad"].append(bad)
    return acc


# ---- rule-targeted library (the merge rules no single-bond cut of a small molecule reaches)

# fragment containing the first atom; bond may be double (carbonyl O, vinyl C)
TARGET_O = [  # oxygen boundaries whose neighbour carbon carries the functional group
    ("CC(C)=O", 3, 1), ("CC=O", 2, 1), ("COC(C)=O", 4, 2), ("CC(=O)O", 2, 1),
    ("CC(N)=O", 3, 1), ("CC(=O)O", 3, 1), ("CCO", 2, 1), ("C=CO", 2, 1),
    ("Oc1ccccc1", 0, 1),
]
TARGET_P = [  # phosphorus boundaries with and without P=O
    ("CP", 1, 0), ("CP(C)C", 1, 0), ("BrP(Br)Br", 1, 0), ("CP(C)(C)=O", 1, 0),
    ("CP(=O)(O)O", 1, 0), ("COP(C)(=O)OC", 2, 3),
]
TARGET_VINYL = [("C=C", 0, 1), ("CC=C", 1, 2), ("CC=C", 2, 1)]
# diazo fragments as the pipeline standardises them (cf. Test/SynMCSImputer/test_merge.py):
# (src, None, neighbour index in src, fragment, boundary index)
TARGET_DIAZO = [
    ("CS(=O)(=O)N=[N+]=[N-]", None, 5, "N#N", 0),
    ("CN=[N+]=[N-]", None, 1, "N#N", 0),
]


def targeted_pairs():
    def recs(specs):
        out = []
        for src, i, j in specs:
            r = _case_rec({"src": src, "cut": [i, j]})
            if r is None:
                raise ValueError("targeted library: cannot cut {} {}-{}".format(src, i, j))
            out.append(r)
        return out

    o, p, v = recs(TARGET_O), recs(TARGET_P), recs(TARGET_VINYL)
    d = [_case_rec({"src": s, "frag": f, "bidx": b, "nidx": n}) for s, _, n, f, b in TARGET_DIAZO]
    pairs = []
    for x, y in [(o, p), (v, d)]:
        for a in x:
            for b in y:
                pairs.append((a, b))
                pairs.append((b, a))
    return pairs


def targeted_all(_):
    """worker: the whole targeted library (a few hundred merges)"""
    acc = {"n": 0, "hist": {}, "exceptions": 0, "bad": [], "nontrivial": 0,
           "nondefault": 0, "nbad": 0}
    for ra, rb in targeted_pairs():
        out, bad = cross_pair(ra, rb, sub="targeted")
        acc["n"] += 1
        _tally(acc, out)
        names = [n for k, n in out.get("rules", []) if k == "MergeRule"]
        if names:
            acc["nontrivial"] += 1
            if any(n != "default single bond" for n in names):
                acc["nondefault"] += 1
        if bad:
            acc["nbad"] += 1
            acc["bad"].append(bad)
    return acc


def alkoxy_probe(_):
    """worker: observation only.  The alkoxy oxygen of an ester (single-bond cut O-C(=O),
    fragment = the alcohol) also satisfies the 'phosphor double bond' conditions."""
    a = _case_rec({"src": "COC(C)=O", "cut": [1, 2]})
    b = _case_rec({"src": "CP(C)C", "cut": [1, 0]})
    out = do_merge([(a[3], a[4], a[5], a[0], a[2], a[6]), (b[3], b[4], b[5], b[0], b[2], b[6])])
    return out


# ---- fragments with two open boundaries ("multi")

SPECTATORS = ["CCN(CC)CC", "[Na+]", "c1ccncc1", "O"]


def cut_two(m, b1, b2):
    """Remove the two bonds b1=(i1,j1), b2=(i2,j2), cap the four ends with H.  Returns
    (middle, ends) where middle = (smiles, [boundary, boundary]) is the component that
    touches both cuts (boundaries in the order of b1, b2), ends = [(smiles, [boundary]),
    (smiles, [boundary])] the component beyond b1 and the one beyond b2, and a boundary is
    (index in the parsed smiles, symbol, neighbour index in m, neighbour symbol).  None when
    the pieces are not a valid decomposition (compositions must add up to M + 4 H)."""
    rw = Chem.RWMol(m)
    for a in rw.GetAtoms():
        a.SetIntProp("c09a", a.GetIdx())
    for i, j in (b1, b2):
        bond = rw.GetBondBetweenAtoms(i, j)
        if bond is None or bond.GetBondType() != SINGLE:
            return None
        rw.RemoveBond(i, j)
        for k in (i, j):
            h = rw.AddAtom(Chem.Atom(1))
            rw.AddBond(k, h, SINGLE)
    whole = rw.GetMol()
    try:
        Chem.SanitizeMol(whole)
        frags = Chem.GetMolFrags(whole, asMols=True, sanitizeFrags=True)
    except Exception:
        return None
    if len(frags) != 3:
        return None
    comps = []
    total = {}
    for f in frags:
        try:
            f = Chem.RemoveHs(f, _rmh_params())
        except Exception:
            return None
        where = {}
        for a in f.GetAtoms():
            if a.HasProp("c09a"):
                where[a.GetIntProp("c09a")] = a.GetIdx()
                a.ClearProp("c09a")
        smi = Chem.MolToSmiles(f)
        order = [int(x) for x in f.GetProp("_smilesAtomOutputOrder").strip("[]").split(",") if x]
        back = Chem.MolFromSmiles(smi)
        if back is None or back.GetNumAtoms() != f.GetNumAtoms():
            return None
        bounds = []
        for ci, (i, j) in enumerate((b1, b2)):
            for b, n in ((i, j), (j, i)):
                if b in where:
                    pos = order.index(where[b])
                    sym = back.GetAtomWithIdx(pos).GetSymbol()
                    if sym != m.GetAtomWithIdx(b).GetSymbol():
                        return None
                    bounds.append((ci, (pos, sym, n, m.GetAtomWithIdx(n).GetSymbol())))
        comps.append((smi, bounds))
        total = oracle.comp_add(total, oracle.comp(smi))
    if total != oracle.comp_add(oracle.comp_mol(m), {"H": 4}):
        return None
    middle = [c for c in comps if len(c[1]) == 2]
    ends = [c for c in comps if len(c[1]) == 1]
    if len(middle) != 1 or len(ends) != 2:
        return None
    mid = middle[0]
    if sorted(ci for ci, _ in mid[1]) != [0, 1]:
        return None
    mid = (mid[0], [b for _, b in sorted(mid[1], key=lambda x: x[0])])
    ends = sorted(ends, key=lambda c: c[1][0][0])
    ends = [(c[0], [c[1][0][1]]) for c in ends]
    return mid, ends


def do_merge_set(comps):
    """comps: [(smiles, src_smiles, [(boundary idx, symbol, nbr idx | None, nbr symbol | None)])]
    added like mcs_based_method.build_compounds does -> outcome dict."""
    from synrbl.SynMCSImputer.structure import CompoundSet
    from synrbl.SynMCSImputer.merge import merge

    cset = CompoundSet()
    for smi, src, bounds in comps:
        c = cset.add_compound(smi, src_mol=src)
        for bi, bs, ni, ns in bounds:
            if ni is None:
                c.add_boundary(bi, symbol=bs)
            else:
                c.add_boundary(bi, symbol=bs, neighbor_index=ni, neighbor_symbol=ns)
    try:
        r = merge(cset)
        return {
            "smiles": r.smiles,
            "rules": [[type(x).__name__, x.name] for x in r.rules],
            "open": len(r.boundaries),
        }
    except Exception as e:  # classified by the caller
        msg = [ln.strip() for ln in str(e).splitlines() if ln.strip()]
        return {"exc": [type(e).__name__, " | ".join(msg[:3])[:300]]}


def explained(out, input_smiles):
    """Do the reported rule applications (with multiplicity) account for the result?
    Every expand application adds its compound and is followed by one merge application;
    a bond-forming merge of order k joins two components and takes k hydrogens from each
    end; a restriction rule leaves them apart.  Returns None or a reason; "n/a" when a
    reported merge rule rewrites bonds/charges (its hydrogen balance is rule specific)."""
    tables = rule_tables()
    exp = [n for k, n in out["rules"] if k == "ExpandRule"]
    mrg = [n for k, n in out["rules"] if k == "MergeRule"]
    if len(exp) != len(mrg):
        return "{} expand applications but {} merge applications reported".format(
            len(exp), len(mrg))
    want = {}
    n_comp = 0
    for smi in input_smiles:
        want = oracle.comp_add(want, oracle.comp(smi))
        n_comp += sum(_mols_ns(smi).values())
    for n in exp:
        csmi = tables["ExpandRule"][n]["compound"]["smiles"]
        want = oracle.comp_add(want, oracle.comp(csmi))
        n_comp += sum(_mols_ns(csmi).values())
    for n in mrg:
        r = tables["MergeRule"][n]
        if r.get("action1") or r.get("action2"):
            return "n/a"
        k = {"single": 1, "double": 2, None: 0}[r.get("bond")]
        if k:
            want = oracle.comp_add(want, {"H": -2 * k})
            n_comp -= 1
    got = oracle.comp(out["smiles"])
    if got != want:
        return "composition {} != inputs + compounds of the reported rules - bond hydrogens {}".format(
            dict(sorted(got.items())), dict(sorted(want.items())))
    got_n = sum(_mols_ns(out["smiles"]).values())
    if got_n != n_comp:
        return "{} molecules in the result, the reported rules explain {}".format(got_n, n_comp)
    return None


def multi_eval(case, comps):
    """one merge() of a compound set that contains a two-boundary fragment"""
    out = do_merge_set(comps)
    inputs = [c[0] for c in comps]
    if "exc" in out:
        if is_refusal(out["exc"]):
            out["refused"] = True
            return out, None
        return out, _bad("multi", case, out, "merged compound or a documented refusal",
                         ["multi", "exception", out["exc"][0]],
                         "merge of {} raised {}: {}".format(
                             inputs, out["exc"][0], out["exc"][1]))
    inv = invariants(out, inputs)
    if inv:
        # one root cause = one key: the merge-rule part is order and multiplicity free
        key = ["multi", inv[0][0]] + sorted(set(inv[0][1:]))
        return out, _bad("multi", case, out, None, key,
                         "{} (cuts {} of {}): {}".format(inputs, case["cuts"], case["src"], inv[1]))
    why = explained(out, inputs)
    if why == "n/a":
        out["unexplainable"] = True
    elif why:
        return out, _bad("multi", case, out, None, ["multi", "rules-do-not-explain-result"],
                         "{} (cuts {} of {}) -> {} with rules {}: {}".format(
                             inputs, case["cuts"], case["src"], out["smiles"],
                             [n for _, n in out["rules"]], why))
    return out, None


def _spectator_comp(smi):
    # build_compounds: water is not a catalyst, it gets a boundary on its oxygen
    return (smi, smi, [(0, "O", None, None)] if smi == "O" else [])


def multi_comps(src, mid, ends, case):
    """the compound list of one multi case"""
    bounds = list(mid[1]) if case["border"] == 0 else list(reversed(mid[1]))
    middle = (mid[0], src, bounds)
    if case["mode"] == "alone":
        return [middle]
    if case["mode"] == "spectator":
        other = _spectator_comp(case["spectator"])
    else:
        e = ends[case["end"]]
        other = (e[0], src, list(e[1]))
    return [middle, other] if case["first"] == 0 else [other, middle]


def multi_cases(src, cuts, tier):
    base = {"src": src, "cuts": [list(cuts[0]), list(cuts[1])]}
    borders = (0, 1)
    for border in borders:
        yield dict(base, mode="alone", border=border)
    for border in (borders if tier == "thorough" else (0,)):
        for sp in SPECTATORS:
            for first in (0, 1):
                yield dict(base, mode="spectator", spectator=sp, first=first, border=border)
        for end in (0, 1):
            for first in (0, 1):
                yield dict(base, mode="end", end=end, first=first, border=border)


def multi_item(item):
    """worker: every unordered pair of cuttable bonds of one molecule"""
    src, tier = item
    acc = {"n": 0, "hist": {}, "exceptions": 0, "bad": [], "nbad": 0, "pairs": 0,
           "skipped": 0, "refused": 0, "nontrivial": 0, "twice": 0, "unexplainable": 0}
    m = Chem.MolFromSmiles(src)
    bonds = cuttable_bonds(m)
    for x in range(len(bonds)):
        for y in range(x + 1, len(bonds)):
            r = cut_two(m, bonds[x], bonds[y])
            if r is None:
                acc["skipped"] += 1
                continue
            mid, ends = r
            acc["pairs"] += 1
            for case in multi_cases(src, (bonds[x], bonds[y]), tier):
                out, bad = multi_eval(case, multi_comps(src, mid, ends, case))
                acc["n"] += 1
                _tally(acc, out)
                if out.get("refused"):
                    acc["refused"] += 1
                if out.get("unexplainable"):
                    acc["unexplainable"] += 1
                exp = [n for k, n in out.get("rules", []) if k == "ExpandRule"]
                if exp:
                    acc["nontrivial"] += 1
                if len(exp) != len(set(exp)):
                    acc["twice"] += 1
                if bad:
                    acc["nbad"] += 1
                    if len(acc["bad"]) < MAX_BAD_PER_ITEM:
                        acc["bad"].append(bad)
    return acc


# boundary-less compounds next to the two fragments of a cut (spectators / catalysts; water without a
# boundary is removed by a compound rule)
BYSTANDERS = ["O", "CO", "Cl", "CCN(CC)CC", "[Na+]"]


def bystander_eval(case, m, recs):
    """differential: the two fragments of a cut merged together with one boundary-less compound at
    position pos of the compound set must give what they give without it (the reconstruction of the
    cut molecule or whatever else), plus at most that compound"""
    src, (i, j) = case["src"], case["cut"]
    si, sj = m.GetAtomWithIdx(i).GetSymbol(), m.GetAtomWithIdx(j).GetSymbol()
    pa = (recs[0][0], src, [(recs[0][1], recs[0][2], j, sj)])
    pb = (recs[1][0], src, [(recs[1][1], recs[1][2], i, si)])
    two = [pa, pb] if case["first"] == 0 else [pb, pa]
    base = do_merge_set(two)
    if "exc" in base:
        return base, None, 1
    comps = list(two)
    comps.insert(case["pos"], (case["by"], case["by"], []))
    out = do_merge_set(comps)
    if "exc" in out:
        return out, _bad("bystander", case, out, base, ["bystander", "exception", out["exc"][0]],
                         "{} + {} (cut of {}) merge to {} but raise {} with the boundary-less compound {} at position {}".format(
                             two[0][0], two[1][0], src, base["smiles"], out["exc"][0], case["by"], case["pos"])), 2
    want, got = _mols_ns(base["smiles"]), _mols_ns(out["smiles"])
    extra = got - want
    if (want - got) or (extra - _mols_ns(case["by"])) or out["open"] != base["open"]:
        return out, _bad("bystander", case, out, base, ["bystander", "result-changed"],
                         "{} + {} (cut of {}) merge to {}, but with the boundary-less compound {} at position {} of the set to {}".format(
                             two[0][0], two[1][0], src, base["smiles"], case["by"], case["pos"], out["smiles"])), 2
    return out, None, 2


def bystander_item(item):
    """worker: every cut of one molecule x both fragment orders x every bystander x every position"""
    src, tier = item
    acc = {"n": 0, "hist": {}, "exceptions": 0, "bad": [], "nbad": 0, "nontrivial": 0}
    m = Chem.MolFromSmiles(src)
    for i, j in cuttable_bonds(m):
        recs = cut(m, i, j)
        if recs is None:
            continue
        for first in (0, 1):
            for by in BYSTANDERS:
                for pos in (0, 1, 2):
                    case = {"src": src, "cut": [i, j], "first": first, "by": by, "pos": pos}
                    out, bad, n = bystander_eval(case, m, recs)
                    acc["n"] += n
                    _tally(acc, out)
                    if "exc" not in out and out["rules"]:
                        acc["nontrivial"] += 1
                    if bad:
                        acc["nbad"] += 1
                        if len(acc["bad"]) < MAX_BAD_PER_ITEM:
                            acc["bad"].append(bad)
    return acc


def multi_space(tier):
    mols = list(universe.U(["C", "N", "O", "S", "P", "Cl"], 4, rings=False))
    mols += [s for s in universe.U(["C", "N", "O"], 5)
             if tier == "thorough" or _n_heavy(s) <= 4]
    seen, out = set(), []
    for s in mols:
        if s not in seen and oracle.closed_shell(s):
            seen.add(s)
            out.append(s)
    return out


# ------------------------------------------------------------------ spaces


def _n_heavy(s):
    return Chem.MolFromSmiles(s).GetNumAtoms()


def metal_variants():
    """X-[M]-Br for M in Mg, Zn on every hydrogen-bearing atom of U({C,N,O},2) (reaches the
    'form M-OH' expand rule on Mg/Zn; Si and B come from the 11-element universe)."""
    out, seen = [], set()
    base = [s for s in universe.U(["C", "N", "O"], 5) if _n_heavy(s) <= 2]
    for s in base:
        m = Chem.MolFromSmiles(s)
        for a in m.GetAtoms():
            if a.GetTotalNumHs() == 0:
                continue
            for metal in ("Mg", "Zn"):
                rw = Chem.RWMol(m)
                x = rw.AddAtom(Chem.Atom(metal))
                br = rw.AddAtom(Chem.Atom("Br"))
                rw.AddBond(a.GetIdx(), x, SINGLE)
                rw.AddBond(x, br, SINGLE)
                mm = rw.GetMol()
                try:
                    Chem.SanitizeMol(mm)
                except Exception:
                    continue
                smi = Chem.MolToSmiles(mm)
                if oracle.closed_shell(smi) and smi not in seen:
                    seen.add(smi)
                    out.append(smi)
    return out


def isotope_variants():
    """one hydrogen of every hydrogen-bearing atom of U({C,N,O},3) written as an explicit
    [2H] atom (a hydrogen that is a real graph atom: atom counts and heavy-atom counts of a
    fragment differ)"""
    out, seen = [], set()
    base = [s for s in universe.U(["C", "N", "O"], 5) if 2 <= _n_heavy(s) <= 3]
    base += ["CC(C)c1ccc(OC)cc1", "CCOC(C)=O", "CC(=O)NC"]
    for s in base:
        m = Chem.MolFromSmiles(s)
        for a in m.GetAtoms():
            if a.GetTotalNumHs() == 0:
                continue
            rw = Chem.RWMol(m)
            d = Chem.Atom(1)
            d.SetIsotope(2)
            x = rw.AddAtom(d)
            rw.AddBond(a.GetIdx(), x, SINGLE)
            mm = rw.GetMol()
            try:
                Chem.SanitizeMol(mm)
            except Exception:
                continue
            smi = Chem.MolToSmiles(mm)
            if oracle.closed_shell(smi) and smi not in seen:
                seen.add(smi)
                out.append(smi)
    return out


def molecule_space(tier):
    """-> (items [(spelling, fragmode)], counters)"""
    gen = []
    gen += universe.U(["C", "N", "O", "S", "P", "Cl"], 4, rings=False)
    gen += universe.U(["C", "N", "O"], 5)
    gen += universe.U(["C", "N", "O", "S", "P", "F", "Cl", "Br", "I", "B", "Si"], 3)
    gen += metal_variants()
    gen += isotope_variants()
    corpus = universe.corpus_molecules() if tier == "thorough" else []
    seen, canon_items, spelled_items = set(), [], []
    n_open_shell = 0
    for s in gen + corpus:
        if s in seen:
            continue
        seen.add(s)
        if not oracle.closed_shell(s):
            n_open_shell += 1
            continue
        canon_items.append((s, "canon"))
    n_gen = len(set(gen))
    for s in gen:
        if (s, "x") in seen:
            continue
        seen.add((s, "x"))
        if _n_heavy(s) > 4 or not oracle.closed_shell(s):
            continue
        # every rooted renumbering: source indices change; fragments written in the
        # inherited (non-canonical) atom order so boundary indices change as well
        for sp in universe.rooted_spellings(s):
            spelled_items.append((sp, "inherit"))
    return canon_items, spelled_items, {"generated_molecules": n_gen,
                                        "corpus_molecules": len(corpus),
                                        "open_shell_skipped": n_open_shell}


# ------------------------------------------------------------------ run / replay


def _collect(res, accs, per_key):
    for acc in accs:
        for b in acc["bad"]:
            k = json.dumps(b["key"])
            per_key[k] = per_key.get(k, 0) + 1
            if per_key[k] <= MAX_BAD_PER_KEY:
                res.add(Violation(b["sub"], b["case"], b["observed"], b["expected"],
                                  b["key"], b["what"]))


def _merge_hist(accs):
    h = Counter()
    for a in accs:
        h.update(a["hist"])
    return h


def run(tier, seed):
    res = Result("exploration")
    tables = rule_tables()
    bondless = sorted(n for n, r in tables["MergeRule"].items() if r.get("bond") is None)
    if bondless != sorted(RESTRICTIONS):
        res.observations.append(
            "merge_rules.json has bond-less rules {} but the documented restriction rules "
            "are {}".format(bondless, sorted(RESTRICTIONS)))
    canon_items, spelled_items, counters = molecule_space(tier)
    per_key = {}
    r1 = pmap("checks.c09:mol_item", canon_items, chunk=10, seed=seed)
    r2 = pmap("checks.c09:mol_item", spelled_items, chunk=100, seed=seed)
    _collect(res, r1, per_key)
    _collect(res, r2, per_key)
    cname = "U3" if tier == "thorough" else "U3q"
    n_rec = len(cross_records(cname))
    r3 = pmap("checks.c09:cross_row", [(cname, a) for a in range(n_rec)], chunk=4, seed=seed)
    _collect(res, r3, per_key)
    r4 = pmap("checks.c09:targeted_all", [0], chunk=1, seed=seed)
    _collect(res, r4, per_key)
    multi_mols = multi_space(tier)
    r5 = pmap("checks.c09:multi_item", [(x, tier) for x in multi_mols], chunk=10, seed=seed)
    _collect(res, r5, per_key)
    r6 = pmap("checks.c09:bystander_item", [(x, tier) for x in multi_mols], chunk=10, seed=seed)
    _collect(res, r6, per_key)
    probe = pmap("checks.c09:alkoxy_probe", [0], chunk=1, seed=seed)[0]
    if "exc" in probe:
        res.observations.append(
            "outside the explored bounds: the alkoxy oxygen of an ester (fragment CO from "
            "COC(C)=O cut at O-C(=O)) merged with a phosphorus boundary (CPC from CP(C)C) "
            "matches rule 'phosphor double bond' and merge() raises {}: {} (the pipeline "
            "records it as the row's issue)".format(probe["exc"][0], probe["exc"][1]))

    def tot(accs, k):
        return sum(a[k] for a in accs)

    hist = (_merge_hist(r1) + _merge_hist(r2) + _merge_hist(r3) + _merge_hist(r4)
            + _merge_hist(r5))
    hist_rt_single = _merge_hist(r1) + _merge_hist(r2)
    evaluations = tot(r1, "n") + tot(r2, "n") + tot(r3, "n") + tot(r4, "n") + tot(r5, "n") + tot(r6, "n")
    nontrivial = (tot(r1, "rt_nontrivial") + tot(r1, "single_nontrivial")
                  + tot(r3, "nontrivial") + tot(r4, "nontrivial") + tot(r5, "nontrivial"))
    n_bad = (tot(r1, "nbad") + tot(r2, "nbad") + tot(r3, "nbad") + tot(r4, "nbad")
             + tot(r5, "nbad") + tot(r6, "nbad"))
    ex_i = len(canon_items) // 2
    res.coverage = {
        "evaluations": evaluations,
        "distinct_nontrivial": nontrivial,
        "rule": "one evaluation = one merge() call.  Non-trivial = distinct (molecule, "
                "acyclic single heavy-atom bond) round trips of the canonical spelling in "
                "which a merge rule fired + distinct (molecule, bond, side) single-fragment "
                "completions in which an expand rule fired + distinct ordered cross pairs in "
                "which a merge rule fired + the targeted-library pairs + the two-boundary "
                "('multi') compound sets in which an expand rule fired; 'bystander' = the two fragments of a cut "
                "together with one boundary-less compound (water, methanol, HCl, triethylamine, Na+) at every position of the "
                "compound set, compared with the merge without it (renumbered spellings "
                "and the second compound order of round trips are evaluated but not counted "
                "as distinct).",
        "samples": [
            {"roundtrip": canon_items[ex_i][0]},
            {"roundtrip": canon_items[-1][0]},
            {"renumbered": spelled_items[len(spelled_items) // 2][0]},
            {"cross": list(cross_records(cname)[n_rec // 2][:3])},
        ],
        "rules_fired": dict(sorted(hist.items())),
        "rules_fired_roundtrip_and_single": dict(sorted(hist_rt_single.items())),
        "rules_fired_cross": dict(sorted(_merge_hist(r3).items())),
        "rules_fired_targeted": dict(sorted(_merge_hist(r4).items())),
        "targeted_pairs": tot(r4, "n"),
        "rules_fired_multi": dict(sorted(_merge_hist(r5).items())),
        "bystander_merges": tot(r6, "n"),
        "rules_fired_bystander": dict(sorted(_merge_hist(r6).items())),
        "multi_molecules": len(multi_mols),
        "multi_bond_pairs": tot(r5, "pairs"),
        "multi_cases": tot(r5, "n"),
        "multi_cases_with_expand_rule": tot(r5, "nontrivial"),
        "multi_cases_same_expand_rule_twice": tot(r5, "twice"),
        "multi_cases_refused": tot(r5, "refused"),
        "multi_cases_without_hydrogen_balance": tot(r5, "unexplainable"),
        "multi_pairs_skipped_by_harness_selfcheck": tot(r5, "skipped"),
        "molecules": len(canon_items),
        "bonds_cut": tot(r1, "bonds"),
        "roundtrip_merges": tot(r1, "rt") + tot(r2, "rt"),
        "roundtrip_bonds_reaching_a_rule": tot(r1, "rt_nontrivial"),
        "roundtrip_bonds_nondefault_rule": tot(r1, "rt_nondefault"),
        "renumbered_spellings": len(spelled_items),
        "renumbered_bonds_cut": tot(r2, "bonds"),
        "single_completions": tot(r1, "single") + tot(r2, "single"),
        "single_with_expand_rule": tot(r1, "single_nontrivial"),
        "single_without_reference_product": tot(r1, "noref") + tot(r2, "noref"),
        "equal_only_modulo_charge_separated_spelling": tot(r1, "modq") + tot(r2, "modq"),
        "cross_universe": cname,
        "cross_fragment_records": n_rec,
        "cross_pairs": tot(r3, "n"),
        "cross_pairs_nondefault_rule": tot(r3, "nondefault"),
        "exceptions_from_merge": (tot(r1, "exceptions") + tot(r2, "exceptions")
                                  + tot(r3, "exceptions") + tot(r4, "exceptions")
                                  + tot(r5, "exceptions") - tot(r5, "refused")),
        "cuts_skipped_by_harness_selfcheck": tot(r1, "skipped") + tot(r2, "skipped"),
        "violating_cases": n_bad,
        "exhaustive": True,
    }
    res.coverage.update(counters)
    res.assumptions = [
        "RDKit's SMILES parser, sanitiser and canonicaliser",
        "a fragment is the cut molecule with one hydrogen added to each cut atom "
        "(compositions checked: fragments == molecule + H2)",
        "documented restriction rules: 'S bond restriction' (S x halogen) and 'bond "
        "restriction' ({N,O,F,Cl,Br,I} x same)",
    ]
    return res


def replay(v):
    c = v.case
    bad = None
    if v.sub in ("roundtrip", "single"):
        m = Chem.MolFromSmiles(c["src"])
        i, j = c["cut"]
        recs = cut(m, i, j, inherit=(c["frag"] == "inherit"))
        if recs is None:
            return []
        if v.sub == "roundtrip":
            _, bad = roundtrip_case(c["src"], m, i, j, recs, c["first"], c["frag"])
        else:
            _, bad = single_case(c["src"], m, i, j, recs, c["side"], c["frag"])
    elif v.sub in ("cross", "targeted"):
        ra, rb = _case_rec(c["a"]), _case_rec(c["b"])
        if ra is None or rb is None:
            return []
        _, bad = cross_pair(ra, rb, sub=v.sub)
    elif v.sub == "bystander":
        m = Chem.MolFromSmiles(c["src"])
        recs = cut(m, c["cut"][0], c["cut"][1])
        if recs is None:
            return []
        _, bad, _ = bystander_eval(c, m, recs)
    elif v.sub == "multi":
        m = Chem.MolFromSmiles(c["src"])
        r = cut_two(m, tuple(c["cuts"][0]), tuple(c["cuts"][1]))
        if r is None:
            return []
        _, bad = multi_eval(c, multi_comps(c["src"], r[0], r[1], c))
    if bad is None:
        return []
    return [Violation(bad["sub"], bad["case"], bad["observed"], bad["expected"], bad["key"],
                      bad["what"])]
