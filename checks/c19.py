"""C19 — the rule database stays consistent under any sequence of edits.

E2: explicit-state breadth-first search.  A state is the ordered record list of a
RuleImputeManager; every transition calls the real add_entry / add_entries / remove_entry
on a fresh manager holding that state and is compared, step by step, with a plain-list
reference model.  States are de-duplicated on their exact canonical form (ordered
(formula, smiles, sorted composition) tuples - nothing observable is dropped).  Every
newly discovered state is additionally re-reached by replaying its history from the
initial state on one fresh object (binds the state-based search to real histories).
"""

import contextlib
import copy
import gzip
import io
import json
import os

from mc import oracle
from mc.boot import ROOT
from mc.pool import pmap
from mc.report import Result, Violation

PROPERTY = "C19"

COMPOUNDS = [
    ("H2O", "O"),                       # valid
    ("Bad", "C(C"),                     # invalid SMILES
    ("H2O", "[OH2]"),                   # same formula, other SMILES
    ("Water", "O"),                     # same SMILES, other formula
    ("C2H3O2-", "CC(=O)[O-]"),          # charged
    ("NaCl", "[Na+].[Cl-]"),            # salt
    ("UF6", "F[U](F)(F)(F)(F)F"),       # heavy element
    ("Empty", ""),                      # empty string (RDKit parses it as the empty molecule)
]


def alphabet(extra=()):
    comps = list(COMPOUNDS) + list(extra)
    ops = [("add", f, s) for f, s in comps]
    ops += [("bulk", a, b) for a in comps for b in comps]
    formulas = []
    for f, _ in comps:
        if f not in formulas:
            formulas.append(f)
    ops += [("remove", f) for f in formulas] + [("remove", "Absent")]
    return ops


def true_comp(smiles):
    c = oracle.comp(smiles)
    if c is None:
        return None
    c = dict(c)
    c.setdefault("Q", 0)
    return c


def canon_state(records):
    out = []
    for r in records:
        comp = r.get("Composition")
        comp = tuple(sorted(comp.items())) if isinstance(comp, dict) else repr(comp)
        out.append((r.get("formula"), r.get("smiles"), comp))
    return tuple(out)


# ------------------------------------------------------------------ reference model


def model_add(state, f, s):
    """-> (accepted, new_state)"""
    if any(r["formula"] == f for r in state):
        return False, state
    if any(r["smiles"] == s for r in state):
        return False, state
    c = true_comp(s)
    if c is None:
        return False, state
    return True, state + [{"formula": f, "smiles": s, "Composition": c}]


def model_step(state, op):
    """-> (new_state, expected observation)"""
    if op[0] == "add":
        ok, ns = model_add(state, op[1], op[2])
        return ns, ("ok" if ok else "ValueError")
    if op[0] == "bulk":
        rejected = []
        ns = state
        for f, s in (op[1], op[2]):
            ok, ns = model_add(ns, f, s)
            if not ok:
                rejected.append({"formula": f, "smiles": s})
        return ns, rejected
    if op[0] == "remove":
        ns = list(state)
        for i, r in enumerate(ns):
            if r["formula"] == op[1]:
                del ns[i]
                break
        return ns, None
    raise ValueError(op)


# ------------------------------------------------------------------ implementation step


def impl_step(mgr, op):
    """-> observation; an exception other than the documented ValueError of add_entry is
    returned as ["raised", type name] and judged as a violation by the caller"""
    sink = io.StringIO()
    with contextlib.redirect_stdout(sink):
        try:
            if op[0] == "add":
                try:
                    mgr.add_entry(op[1], op[2])
                    return "ok"
                except ValueError:
                    return "ValueError"
            if op[0] == "bulk":
                return mgr.add_entries([{"formula": f, "smiles": s} for f, s in (op[1], op[2])])
            if op[0] == "remove":
                return mgr.remove_entry(op[1])
        except Exception as e:
            return ["raised", type(e).__name__]
    raise ValueError(op)


def fresh_manager(records, as_frame=False):
    from synrbl.SynRuleImputer.rule_data_manager import RuleImputeManager

    recs = copy.deepcopy(records)
    if as_frame:
        import pandas as pd

        return RuleImputeManager(pd.DataFrame(recs))
    return RuleImputeManager(recs)


def invariant(records, initial_pairs=frozenset()):
    """-> list of (key, what).  Duplicate pairs already present in the initial state are
    reported once for the initial state (depth 0) and are not re-reported for successors."""
    bad = []
    for r in records:
        want = true_comp(r["smiles"])
        if r.get("Composition") != want:
            bad.append((["composition", r["smiles"]],
                        "record {} has Composition {} but its SMILES is {}".format(
                            r["formula"], r.get("Composition"), want)))
    seen_f, seen_s = {}, {}
    for i, r in enumerate(records):
        for kind, seen, val in (("formula", seen_f, r["formula"]), ("smiles", seen_s, r["smiles"])):
            if val in seen and (kind, val) not in initial_pairs:
                bad.append((["duplicate-" + kind, val],
                            "records {} and {} share the {} {!r}".format(seen[val], i, kind, val)))
            seen.setdefault(val, i)
    return bad


def duplicate_pairs(records):
    out = set()
    for kind in ("formula", "smiles"):
        seen = set()
        for r in records:
            if r[kind] in seen:
                out.add((kind, r[kind]))
            seen.add(r[kind])
    return frozenset(out)


def expand(job):
    """worker: all transitions out of one state"""
    state, ops, as_frame, init_pairs = job["state"], job["ops"], job["frame"], frozenset(map(tuple, job["init_pairs"]))
    out = []
    for op in ops:
        op = tuple(tuple(x) if isinstance(x, list) else x for x in op)
        mgr = fresh_manager(state, as_frame)
        obs = impl_step(mgr, op)
        got = mgr.database
        want_state, want_obs = model_step(copy.deepcopy(state), op)
        bad = []
        raised = isinstance(obs, list) and obs[:1] == ["raised"]
        if raised:
            bad.append((["raises", op[0], obs[1]], "{}{} raises {}".format(op[0], op[1:], obs[1])))
        if op[0] == "add" and obs != want_obs and not raised:
            bad.append((["add-verdict", want_obs], "add{} -> {} (model: {})".format(op[1:], obs, want_obs)))
        if op[0] == "bulk" and obs != want_obs and not raised:
            bad.append((["bulk-rejected-list"], "add_entries{} returned {} (model: {})".format(op[1:], obs, want_obs)))
        if canon_state(got) != canon_state(want_state):
            kind = {"add": "add-effect", "bulk": "bulk-effect", "remove": "remove-effect"}[op[0]]
            bad.append(([kind], "{}{} on {} records gives {} (model: {})".format(
                op[0], op[1:], len(state), [(r["formula"], r["smiles"]) for r in got][-4:],
                [(r["formula"], r["smiles"]) for r in want_state][-4:])))
        bad += invariant(got, init_pairs)
        out.append({"op": op, "next": got, "bad": bad})
    return out


def replay_history(job):
    """worker: replay a history from the initial state on one object -> final canonical state"""
    mgr = fresh_manager(job["init"], job["frame"])
    for op in job["hist"]:
        op = tuple(tuple(x) if isinstance(x, list) else x for x in op)
        impl_step(mgr, op)
    return canon_state(mgr.database)


def history_subtree(job):
    """worker: every operation sequence below a given prefix, executed step by step on ONE
    manager object (copied at each branching point, hidden state included) next to the list
    model - histories, not states, are enumerated here, so state kept outside the record list
    cannot hide behind the state de-duplication of the BFS"""
    init, ops, prefix, depth = job["init"], [tuple(tuple(x) if isinstance(x, list) else x for x in o) for o in job["ops"]], job["prefix"], job["depth"]
    init_pairs = duplicate_pairs(init)
    bad = []
    count = [0]

    def step(mgr, model, hist, op):
        obs = impl_step(mgr, op)
        want_state, want_obs = model_step(copy.deepcopy(model), op)
        count[0] += 1
        raised = isinstance(obs, list) and obs[:1] == ["raised"]
        here = []
        if raised:
            here.append(["raises", op[0], obs[1]])
        if op[0] in ("add", "bulk") and obs != want_obs and not raised:
            here.append(["add-verdict", want_obs] if op[0] == "add" else ["bulk-rejected-list"])
        if canon_state(mgr.database) != canon_state(want_state):
            here.append([{"add": "add-effect", "bulk": "bulk-effect", "remove": "remove-effect"}[op[0]]])
        here += [k for k, _ in invariant(mgr.database, init_pairs)]
        for k in here:
            if len(bad) < 40:
                bad.append({"key": ["history"] + k, "hist": [list(o) for o in hist + [op]]})
        # continue from the implementation's own state so that one divergence is reported once
        return copy.deepcopy(mgr.database)

    def rec(mgr, model, hist, d):
        if d == 0:
            return
        for op in ops:
            m2 = copy.deepcopy(mgr)
            new_model = step(m2, model, hist, op)
            rec(m2, new_model, hist + [op], d - 1)

    mgr = fresh_manager(init)
    model = copy.deepcopy(init)
    hist = []
    for op in prefix:
        op = tuple(tuple(x) if isinstance(x, list) else x for x in op)
        model = step(mgr, model, hist, op)
        hist.append(op)
    rec(mgr, model, hist, depth - len(prefix))
    return {"steps": count[0], "bad": bad}


def load_db(rel):
    p = os.path.join(ROOT, rel)
    with open(p, "rb") as f:
        raw = f.read()
    if raw[:2] == b"\x1f\x8b":
        raw = gzip.decompress(raw)
    return json.loads(raw.decode())


def bfs(name, init, ops, depth, seed, as_frame=False, res=None, counters=None):
    init_pairs = duplicate_pairs(init)
    for key, what in invariant(init):
        res.add(Violation("initial-state", {"start": name, "history": []}, None, None,
                          ["shipped"] + key if not name.startswith("empty") else key, "[{}] {}".format(name, what)))
    seen = {canon_state(init): []}
    frontier = [(init, [])]
    for d in range(depth):
        jobs = [{"state": s, "ops": ops, "frame": as_frame, "init_pairs": sorted(init_pairs)} for s, _ in frontier]
        results = pmap("checks.c19:expand", jobs, chunk=max(1, len(jobs) // 64), seed=seed, timeout=7200)
        nxt = []
        for (state, hist), trans in zip(frontier, results):
            for t in trans:
                counters["transitions"] += 1
                for key, what in t["bad"]:
                    res.add(Violation("step", {"start": name, "history": hist + [list(t["op"])], "frame": as_frame},
                                      None, None, key, "[{} +{}] {}".format(name, len(hist) + 1, what)))
                k = canon_state(t["next"])
                if k not in seen:
                    seen[k] = hist + [list(t["op"])]
                    nxt.append((t["next"], hist + [list(t["op"])]))
        frontier = nxt
        counters["depth_done"][name] = d + 1
        if not frontier:
            break
    # bind states to histories: replay each state's discovering history on one object
    keys = sorted(seen, key=lambda k: (len(seen[k]), repr(k)))
    jobs = [{"init": init, "frame": as_frame, "hist": seen[k]} for k in keys]
    finals = pmap("checks.c19:replay_history", jobs, chunk=max(1, len(jobs) // 64), seed=seed, timeout=7200)
    for k, fin, j in zip(keys, finals, jobs):
        counters["replayed"] += 1
        if fin != k:
            res.add(Violation("history-replay", {"start": name, "history": j["hist"], "frame": as_frame},
                              None, None, ["state-vs-history"],
                              "[{}] replaying {} on one object gives another state than the state-based search".format(
                                  name, j["hist"])))
    counters["states"] += len(seen)
    return seen


def run(tier, seed):
    res = Result("model_checking")
    counters = {"transitions": 0, "states": 0, "replayed": 0, "depth_done": {}}
    ops = alphabet()
    bfs("empty", [], ops, 3 if tier == "quick" else 5, seed, res=res, counters=counters)
    # deeper histories over a small alphabet of three valid compounds (adds and removes only)
    small = [("H2O", "O"), ("C2H6O", "CCO"), ("H4N+", "[NH4+]")]
    small_ops = [("add", f, s) for f, s in small] + [("remove", f) for f, _ in small] + [("bulk", small[0], small[1]), ("bulk", small[2], small[2])]
    bfs("empty/add-remove", [], small_ops, 5 if tier == "quick" else 9, seed, res=res, counters=counters)
    # formulas that are the SMILES of another compound, and non-canonical SMILES written twice
    coll = [("H2O", "O"), ("O", "[O]"), ("CH4O", "CO"), ("CO", "[C-]#[O+]"), ("CH2O2", "C(=O)O"), ("Formic", "C(=O)O"),
            ("C6H6", "C1=CC=CC=C1"), ("Benzene", "C1=CC=CC=C1"), ("Co", "[Co]"), ("HF", "F"), ("Hf", "[Hf]")]
    coll_ops = [("add", f, s2) for f, s2 in coll] + [("remove", f) for f in ("O", "CO", "H2O", "CH2O2", "C6H6", "Co", "HF", " CO")] + \
               [("bulk", coll[4], coll[5]), ("bulk", coll[6], coll[7]), ("bulk", coll[0], coll[1])]
    bfs("empty/collisions", [], coll_ops, 3 if tier == "quick" else 5, seed, res=res, counters=counters)
    # all HISTORIES (not states) over the small alphabet on single objects
    hdepth = 6 if tier == "quick" else 8
    hjobs = [{"init": [], "ops": [list(o) for o in small_ops[:6]], "prefix": [list(a), list(b)], "depth": hdepth}
             for a in small_ops[:6] for b in small_ops[:6]]
    hres = pmap("checks.c19:history_subtree", hjobs, chunk=1, seed=seed, timeout=7200)
    hkeys = {}
    for j, r in zip(hjobs, hres):
        counters["transitions"] += r["steps"]
        counters["replayed"] += r["steps"]
        for b in r["bad"]:
            k = json.dumps(b["key"])
            hkeys[k] = hkeys.get(k, 0) + 1
            if hkeys[k] <= 5:
                res.add(Violation("history", {"start": "empty", "history": b["hist"]}, None, None, b["key"],
                                  "[single object] after {}: {}".format(b["hist"][:-1], b["key"])))
    shipped = {
        "rules_manager": load_db("synrbl/SynRuleImputer/rules_manager.json.gz"),
        "automated_rules": load_db("Data/Rules/automated_rules.json.gz"),
    }
    for name, db in shipped.items():
        extra = [(db[0]["formula"], "[Xe]"), ("NewFormula", db[0]["smiles"]), (db[-1]["formula"], db[-1]["smiles"])]
        o = alphabet(extra)
        if tier == "quick":
            o = [x for x in o if x[0] != "bulk"] + [x for x in o if x[0] == "bulk"][::7]
        bfs(name, db, o, 1 if tier == "quick" else 2, seed, res=res, counters=counters)
        # depth 3 from the shipped database over removes of a first / middle / last record and two adds
        rem = [("remove", db[0]["formula"]), ("remove", db[len(db) // 2]["formula"]), ("remove", db[-1]["formula"]),
               ("add", "H2O2x", "OO.O"), ("add", db[1]["formula"], "[Xe]"), ("bulk", ("Xe", "[Xe]"), ("Xe", "[Xe]"))]
        bfs(name + "/removes", db, rem, 3 if tier == "quick" else 4, seed, res=res, counters=counters)
    bfs("rules_manager(DataFrame)", shipped["rules_manager"], [x for x in alphabet() if x[0] != "bulk"], 1, seed,
        as_frame=True, res=res, counters=counters)
    res.coverage = {
        "states": counters["states"],
        "transitions": counters["transitions"],
        "traces_validated_against_impl": counters["transitions"] + counters["replayed"],
        "samples": [{"history": [["add", "H2O", "O"], ["bulk", ["Water", "O"], ["NaCl", "[Na+].[Cl-]"]], ["remove", "H2O"]]},
                    {"alphabet_size": len(ops)}],
        "depth_completed": counters["depth_done"],
        "histories_replayed_on_one_object": counters["replayed"],
        "evaluations": counters["transitions"],
        "distinct_nontrivial": counters["states"],
        "rule": "BFS over ordered record lists; alphabet = add of 8 compounds (valid, invalid, same formula, same "
                "SMILES, charged, salt, heavy element, empty string), add_entries of every ordered pair, remove of every "
                "formula and an absent one; every transition executes the real method and is compared with a list model; "
                "invariant evaluated in every state; additionally every operation sequence of length <= 6 (thorough 8) over 3 adds + 3 removes is executed on single objects",
        "exhaustive": True,
    }
    res.assumptions = ["a RuleImputeManager has no state besides its record list (checked by replaying every state's "
                       "history on a single object)", "SMILES validity and true composition are RDKit's"]
    return res


def replay(v):
    c = v.case
    if c["start"].startswith("empty"):
        init = []
    elif c["start"].startswith("rules_manager"):
        init = load_db("synrbl/SynRuleImputer/rules_manager.json.gz")
    else:
        init = load_db("Data/Rules/automated_rules.json.gz")
    init_pairs = duplicate_pairs(init)
    out = []
    if not c["history"]:
        for key, what in invariant(init):
            key = ["shipped"] + key if not c["start"].startswith("empty") else key
            if key == v.key:
                out.append(Violation(v.sub, c, None, None, key, what))
        return out
    # replay the history on one object, comparing with the model at every step
    mgr = fresh_manager(init, c.get("frame", False))
    if v.sub == "history":
        r = history_subtree({"init": init, "ops": [], "prefix": c["history"], "depth": len(c["history"])})
        return [Violation(v.sub, c, None, None, b["key"], "reproduced") for b in r["bad"] if b["key"] == v.key and b["hist"] == c["history"]][:1]
    if v.sub == "history-replay":
        # state-based search vs one object: re-run both and compare
        state = copy.deepcopy(init)
        for op in c["history"]:
            op = tuple(tuple(x) if isinstance(x, list) else x for x in op)
            impl_step(mgr, op)
            m2 = fresh_manager(state, c.get("frame", False))
            impl_step(m2, op)
            state = m2.database
        if canon_state(state) != canon_state(mgr.database):
            out.append(Violation(v.sub, c, None, None, v.key, "state-based and history-based runs differ"))
        return out
    for op in c["history"]:
        op = tuple(tuple(x) if isinstance(x, list) else x for x in op)
        pre = copy.deepcopy(mgr.database)
        obs = impl_step(mgr, op)
        model, want_obs = model_step(pre, op)
        bad = []
        raised = isinstance(obs, list) and obs[:1] == ["raised"]
        if raised:
            bad.append(["raises", op[0], obs[1]])
        if op[0] == "add" and obs != want_obs and not raised:
            bad.append(["add-verdict", want_obs])
        if op[0] == "bulk" and obs != want_obs and not raised:
            bad.append(["bulk-rejected-list"])
        if canon_state(mgr.database) != canon_state(model):
            bad.append([{"add": "add-effect", "bulk": "bulk-effect", "remove": "remove-effect"}[op[0]]])
        bad += [k for k, _ in invariant(mgr.database, init_pairs)]
        for k in bad:
            if k == v.key:
                out.append(Violation(v.sub, c, None, None, k, "reproduced at op {}".format(op)))
    return out
