"""C18 — run statistics agree with the returned rows.

E1: every run of the stated universes under every batch size and threshold; the stats
dict is compared with counts taken from the returned rows."""

from checks import pipefam as pf

PROPERTY = "C18"


def universes(tier):
    us = []
    special = pf.dedupe(pf.HAND + pf.SPECIAL)
    alpha = pf.A01[:8] if tier == "quick" else pf.A01
    rx = pf.dedupe(pf.rxn_universe(alpha, 2))
    # many small runs: statistics are per run, so the run is the unit
    us.append(("Rxn(A01,2) runs of 7", rx, {}, 7))
    if tier == "thorough":
        us.append(("Rxn(A01[:8],2) runs of 3", pf.dedupe(pf.rxn_universe(pf.A01[:8], 2)), {}, 3))
    for t in (0, 0.5, 1):
        for bs in (None, 1, 2, 3):
            us.append(("hand+special t={} bs={}".format(t, bs), special, {"threshold": t, "batch_size": bs}, 6))
            if tier == "quick" and bs == 2:
                us.pop()
    us.append(("hand+special single rows t=0.5", special, {"threshold": 0.5}, 1))
    us.append(("atomic H/O reagents", pf.dedupe(pf.PLACEHOLDERS), {}, 5))
    return us


def run(tier, seed):
    us = universes(tier)
    res = pf.drive(PROPERTY, us, seed)
    res.coverage["rule"] = (
        "every run (one rebalance call) over consecutive slices of the complete Rxn(A01,2) "
        "universe and of the hand-built/special families, thresholds {0,0.5,1} x batch sizes "
        "{None,1,2,3} and single-row runs.  Non-trivial = distinct statistics dictionaries observed."
    )
    res.coverage["samples"] = [us[0][1][:7], us[-1][1][:1]]
    res.assumptions = ["inputs are valid reactions (malformed rows are C05's)"]
    return res


def replay(v):
    return pf.replay_rows(v, PROPERTY)
