"""C18 — run statistics agree with the returned rows.

E1: every run of the stated universes under every batch size and threshold; the stats
dict is compared with counts taken from the returned rows."""

from checks import pipefam as pf

PROPERTY = "C18"


def conf_job(rxns):
    from mc import pipeline

    out = pipeline.run({"rxns": rxns, "threshold": 0})
    return [(rx, r.get("confidence")) for rx, r in zip(rxns, out["rows"] or []) if r.get("solved_by") == "mcs-based"]


def observed_confidences(rxns):
    import math

    from mc.pool import pmap

    batches = [rxns[i:i + 5] for i in range(0, len(rxns), 5)]
    got = [x for r in pmap("checks.c18:conf_job", batches, chunk=1) for x in r if isinstance(x[1], float)]
    cs = sorted({c for _, c in got})
    out = []
    for c in cs:
        out += [c, math.nextafter(c, 1.0)]
    return [t for t in out if 0 <= t <= 1], [rx for rx, _ in got]


def universes(tier):
    us = []
    special = pf.dedupe(pf.HAND + pf.SPECIAL)
    alpha = pf.A01[:8] if tier == "quick" else pf.A01
    rx = pf.dedupe(pf.rxn_universe(alpha, 2))
    # many small runs: statistics are per run, so the run is the unit
    us.append(("Rxn(A01,2) runs of 7", rx, {}, 7))
    if tier == "thorough":
        us.append(("Rxn(A01[:8],2) runs of 3", pf.dedupe(pf.rxn_universe(pf.A01[:8], 2)), {}, 3))
    for t in (0, 0.5, 1):
        for bs in (None, 1, 2, 3):
            us.append(("hand+special t={} bs={}".format(t, bs), special, {"threshold": t, "batch_size": bs}, 6))
            if tier == "quick" and bs == 2:
                us.pop()
    us.append(("hand+special single rows t=0.5", special, {"threshold": 0.5}, 1))
    us.append(("atomic H/O reagents", pf.dedupe(pf.PLACEHOLDERS), {}, 5))
    # thresholds equal to (and just above) every confidence observed on the hand-built family
    ts, mcs_rx = observed_confidences(special)
    for t in ts:
        us.append(("mcs-solved hand reactions t={!r}".format(t), mcs_rx, {"threshold": t}, 8))
    # malformed rows are input rows too: every sequence of length 3 over valid and malformed values
    import itertools

    vals = ["CCO>>CC=O", "CC(=O)O.CCO>>CC(=O)OCC.O", "CC(=O)OCC>>CC(=O)O", "C(C)(>>CC", "CCO", "CC(C)(C)(C)(C)C>>CC"]
    mixed = [x for seq in itertools.product(vals, repeat=3) for x in seq]
    for bs in (None, 2):
        us.append(("mixed malformed bs={}".format(bs), mixed, {"batch_size": bs}, 3))
    # a result table fed in again: rows carry the output columns of an earlier run (labels rotate, so they are mostly wrong)
    labels = [(True, "mcs-based"), (True, "rule-based"), (False, None), (True, "input-balanced")]
    stale = []
    for i, r in enumerate(special):
        sv, by = labels[i % 4]
        stale.append({"reaction": r, "input_reaction": r, "solved": sv, "solved_by": by, "confidence": 0.9 if by == "mcs-based" else None,
                      "issue": "" if sv else "old issue", "rules": []})
        if i % 5 == 0:
            stale.append({"reaction": r})
    for bs in (None, 2):
        us.append(("stale result rows bs={}".format(bs), stale, {"batch_size": bs, "threshold": 0.5}, 6))
    return us


def run(tier, seed):
    us = universes(tier)
    res = pf.drive(PROPERTY, us, seed)
    res.coverage["rule"] = (
        "every run (one rebalance call) over consecutive slices of the complete Rxn(A01,2) "
        "universe and of the hand-built/special families, thresholds {0,0.5,1} x batch sizes "
        "{None,1,2,3}, single-row runs, thresholds equal to / just above every observed confidence, every length-3 "
        "sequence over 3 valid and 3 malformed rows, and result tables fed in again (rows carrying stale output columns).  Non-trivial = distinct statistics dictionaries observed."
    )
    res.coverage["samples"] = [us[0][1][:7], us[-1][1][:1]]
    res.assumptions = ["inputs are valid reactions (malformed rows are C05's)"]
    return res


def replay(v):
    return pf.replay_rows(v, PROPERTY)
