"""C02 — rebalancing only adds whole molecules; the given molecules are never altered.

E1 through the real pipeline; the universe puts every marker-bearing molecule in every
position of every side."""

from checks import pipefam as pf

PROPERTY = "C02"

# molecules whose text contains '.[H]', '.[O]', '.OO' when they are not first on a side
A02 = ["CCO", "CC=O", "CC(=O)O", "O", "CC(C)=O", "CCCl", "OO", "[H][H]", "COO", "[Na]Cl",
       "CC(=O)OO", "[HH]", "[Na]O", "CN"]


def universes(tier):
    us = []
    special = pf.dedupe(pf.HAND + [r for r in pf.SPECIAL])
    if tier == "quick":
        us.append(("Rxn(A02[:9],2)", pf.dedupe(pf.rxn_universe(A02[:9], 2)), {}, 25))
        us.append(("hand+special", special, {}, 6))
    else:
        us.append(("Rxn(A02,2)", pf.dedupe(pf.rxn_universe(A02, 2)), {}, 40))
        us.append(("hand+special", special, {}, 6))
        us.append(("hand+special bs=2 t=0.5", special, {"batch_size": 2, "threshold": 0.5}, 6))
        corpus = [r for r in pf.corpus_reactions("reaction") if pf.in_domain(r)]
        us.append(("validation corpus (mapped)", corpus, {}, 25))
    # explicit-H and mapped spellings of the marker molecules in both positions
    spell = []
    for m in pf.MARKERS:
        for other in ("CCO", "CC=O", "CC(=O)O"):
            for rx in ("{m}.{o}>>{o}", "{o}.{m}>>{o}", "{o}>>{o}.{m}", "{o}>>{m}.{o}",
                       "{o}.{m}>>CC(=O)O", "{o}>>CC(=O)O.{m}", "{m}.{o}>>{m}.CC"):
                spell.append(rx.format(m=m, o=other))
    us.append(("marker positions", pf.dedupe(spell), {}, 15))
    # rows of an earlier result table whose reaction was edited and that are fed in again
    stale = []
    for i, r in enumerate(pf.dedupe(pf.HAND[:16] + pf.rxn_universe(A02[:5], 1))):
        stale.append({"reaction": r, "input_reaction": "CCC>>CCCC", "solved": i % 2 == 0, "solved_by": "rule-based", "issue": "old"})
    us.append(("stale input_reaction column", stale, {}, 4))
    us += pf.ids_universes()
    return us


def run(tier, seed):
    us = universes(tier)
    res = pf.drive(PROPERTY, us, seed)
    res.coverage["rule"] = (
        "every reaction with sides of 1..2 molecules over an alphabet that contains the molecules "
        "whose text carries the pipeline's string markers (OO, [H][H], COO, [Na]Cl, ...), every "
        "marker molecule in every position next to three partners, hand-built and special "
        "families; thorough adds the full alphabet and the complete (atom-mapped) corpus.  "
        "Non-trivial = distinct inputs whose returned reaction differs from input_reaction "
        "(something was added)."
    )
    res.coverage["samples"] = [us[0][1][5], us[0][1][-1], us[-2][1][0], us[-1][1][0]]
    res.assumptions = ["molecule identity = RDKit canonical SMILES of each fragment, atom maps cleared",
                       "domain: closed-shell molecules, no free atomic H/O placeholders in the input"]
    return res


def replay(v):
    return pf.replay_rows(v, PROPERTY)
