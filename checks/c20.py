"""C20 — tautomer standardisation conserves atoms and returns valid SMILES.

E1: MoleculeStandardizer()(smiles) on every rooted spelling of every molecule of
U({C,O},5) and U({C,N,O},4), on the [O-] / [Na]O / [Na+].[O-] variants of every hydroxyl,
on a gem-diol / ortho-acid series, cyclic and acyclic hemiacetals/hemiketals, all ordered
pairs of 12 molecules as mixtures and (thorough) every corpus molecule.

Oracle: no exception; the output parses (is not an error text); comp(out) == comp(in)
(elements, hydrogens, net charge, by the independent composition); f(f(x)) == f(x).
"""

from rdkit import Chem

from mc import oracle, universe
from mc.pool import pmap
from mc.report import Result, Violation

PROPERTY = "C20"

GEM_SERIES = [
    "OCO", "CC(O)O", "CC(C)(O)O", "OC(O)O", "CC(O)(O)O", "OC(O)(O)O", "CCC(O)(O)O",
    "OC(O)C(O)O", "CC(O)(O)C(C)(O)O", "OC(O)(O)C(O)(O)O", "CC(O)(O)CC(O)O", "OC(O)CC(O)O",
    "OC(O)=O", "CC(O)(O)C=O", "OC(O)C=CO", "CC(O)(O)C=C(C)O", "OC(O)c1ccccc1",
    "CC(O)(O)OC", "COC(C)(O)OC", "COC(O)(O)OC", "OC1(O)CCCCC1", "OC1(O)CC1",
    "CC(O)(O)N", "NC(O)O", "OC(O)(O)N", "OC(O)[O-]", "CC(O)(O)[O-]", "CC([O-])O",
]
HEMIKETALS = [
    "OC1(C)CCCO1", "OC1CCCCO1", "OC1CCCO1", "OC1(C)CCCCO1", "OC1(C)OCCO1", "OC1OCCO1",
    "CC(O)OC", "CC(C)(O)OC", "OCOC", "COC(C)OC", "CC(C)(OC)OC", "OC(C)OC(C)O",
    "OCC1OC(O)C(O)C(O)C1O", "OCC1(O)OCC(O)C(O)C1O", "OC1(C)CCC(=O)O1", "OC1(C)CC=CO1",
    "OC1(C)OC=CC1", "CC1(O)OC(C)(O)CC1", "OC1(CCCO1)C=C", "OC1(CCCO1)C(O)=C",
    "[O-]C1(C)CCCO1", "OC1(C)CCCN1", "OC1(C)CCCS1",
]
ENOLS = [
    "C=CO", "CC=CO", "C=C(C)O", "OC=CO", "OC=CC=CO", "C=C(O)C=C(O)C", "OC(=C)C(O)=C",
    "OC1=CCCCC1", "OC1=CC=CC=C1", "Oc1ccccc1", "OC=C1CCCC1", "C=C(O)C(C)=O", "CC(O)=CC(C)=O",
    "OC=CN", "C=C(O)N", "C=C(O)OC", "C=C(O)O", "OC(O)=C", "C=C(O)Cl", "OC=C=C", "OC#C",
    "C=C[O-]", "CC([O-])=C", "[O-]C=CO", "C=CO[Na]", "[Na+].C=C[O-]", "[Li]OC(C)=C",
    "C=CO.C=CO", "C=CS", "OC=CC(O)O", "OC(C)=CC1(O)CCCO1",
]
PAIR_ALPHABET = [
    "C=CO", "CC(O)O", "CC(C)(O)OC", "OC=CO", "C=C[O-]", "[Na+]", "O", "CC=O", "CCO",
    "c1ccccc1O", "OC1(C)CCCO1", "CC(=O)O",
    # molecules whose SMILES text contains the text of a rewritable molecule (ethers / esters of the same enol or hemiketal)
    "C=COC", "C=COC(C)=O", "C=COC=C", "CC(C)(O)OCC", "CC(O)OC",
]


# --------------------------------------------------------------------------- inputs


def hydroxyl_variants(smiles):
    """[O-], [Na]O and [Na+].[O-] variants of every hydroxyl group (one at a time)"""
    m = Chem.MolFromSmiles(smiles)
    out = []
    for a in m.GetAtoms():
        if (a.GetSymbol() == "O" and a.GetDegree() == 1 and a.GetTotalNumHs() == 1
                and a.GetFormalCharge() == 0):
            rw = Chem.RWMol(m)
            o = rw.GetAtomWithIdx(a.GetIdx())
            o.SetFormalCharge(-1)
            o.SetNumExplicitHs(0)
            o.SetNoImplicit(True)
            try:
                mm = rw.GetMol()
                Chem.SanitizeMol(mm)
                anion = Chem.MolToSmiles(mm)
                out.append(anion)
                out.append("[Na+]." + anion)
            except Exception:
                pass
            rw = Chem.RWMol(m)
            na = rw.AddAtom(Chem.Atom("Na"))
            rw.AddBond(a.GetIdx(), na, Chem.BondType.SINGLE)
            try:
                mm = rw.GetMol()
                Chem.SanitizeMol(mm)
                out.append(Chem.MolToSmiles(mm))
            except Exception:
                pass
    return out


def _dedupe(xs):
    seen, out = set(), []
    for x in xs:
        if x not in seen:
            seen.add(x)
            out.append(x)
    return out


TRIPLE_ALPHABET = ["C=CO", "C=C[O-]", "CC(O)(O)C", "CC(O)(OC)C", "[O-]C=CC", "CC([O-])(OC)C"]


def bracket_spellings(smiles):
    out = [universe.explicit_h_spelling(smiles), universe.kekule_spelling(smiles)]
    out += universe.mapped_spellings(smiles)[:1]
    m = Chem.MolFromSmiles(smiles)
    for a in m.GetAtoms():
        if a.GetSymbol() in ("C", "O") and a.GetIdx() < 6:
            mm = Chem.Mol(m)
            mm.GetAtomWithIdx(a.GetIdx()).SetIsotope(13 if a.GetSymbol() == "C" else 18)
            out.append(Chem.MolToSmiles(mm))
    return [s for s in out if s and Chem.MolFromSmiles(s) is not None]


def input_space(tier):
    """{family: [input SMILES]} (deterministic, simplest first)"""
    fam = {}
    base = _dedupe(universe.U(["C", "O"], 5) + universe.U(["C", "N", "O"], 4))
    fam["universe"] = _dedupe(s for m in base for s in universe.rooted_spellings(m))
    variants = _dedupe(v for m in base for v in hydroxyl_variants(m))
    fam["alkoxides"] = _dedupe(s for v in variants for s in universe.rooted_spellings(v))
    lists = [oracle.canon(s) for s in GEM_SERIES + HEMIKETALS + ENOLS]
    assert all(lists)
    fam["series"] = _dedupe(s for m in _dedupe(lists) for s in universe.rooted_spellings(m))
    fam["pairs"] = [a + "." + b for a in PAIR_ALPHABET for b in PAIR_ALPHABET]
    # explicit-hydrogen, kekulised, atom-mapped and isotope-labelled spellings of the
    # molecules that carry a convertible group (hydrogen counts written in brackets)
    fam["bracket-spellings"] = _dedupe(
        s for m in _dedupe(lists) + base[:400] for s in bracket_spellings(m))
    fam["triples"] = [a + "." + b + "." + c for a in TRIPLE_ALPHABET for b in TRIPLE_ALPHABET for c in TRIPLE_ALPHABET]
    if tier == "thorough":
        big = _dedupe(universe.U(["C", "O"], 6) + universe.U(["C", "N", "O"], 5))
        fam["universe-large"] = _dedupe(
            s for m in big for s in universe.rooted_spellings(m))
        fam["corpus"] = universe.corpus_molecules()
        fam["series-alkoxides"] = _dedupe(
            s for m in _dedupe(lists) for v in hydroxyl_variants(m)
            for s in universe.rooted_spellings(v))
    return fam


# --------------------------------------------------------------------------- oracle

_STD = []


def _std():
    if not _STD:
        from synrbl.SynChemImputer.molecule_standardizer import MoleculeStandardizer

        _STD.append(MoleculeStandardizer())
    return _STD[0]


def _kind(e):
    msg = str(e)
    if "Invalid atom indices" in msg:
        return "invalid-atom-indices"
    if "Error in sanitizing molecule" in msg:
        return "sanitize-error-text"
    if "Error in modifying molecule" in msg:
        return "modify-error-text"
    return type(e).__name__


def _apply(smiles):
    from mc.pool import time_limit

    try:
        with time_limit(20):
            return _std()(smiles), None
    except Exception as e:  # noqa: BLE001  (a hang surfaces as TimeoutError)
        return None, e


def judge(smiles):
    """None when `smiles` is outside the domain, else (nontrivial?, [failure dicts])"""
    want = oracle.comp(smiles)
    if want is None:
        return None
    fails = []
    out, err = _apply(smiles)
    if err is not None:
        fails.append({"s": smiles, "key": ["raises", _kind(err)],
                      "observed": "{}: {}".format(type(err).__name__, str(err)[:200]),
                      "expected": "a SMILES with composition {}".format(want)})
        return True, fails
    got = oracle.comp(out) if isinstance(out, str) else None
    if got is None:
        fails.append({"s": smiles, "key": ["unparsable-output"], "observed": out,
                      "expected": "a parsable SMILES"})
        return True, fails
    if got != want:
        lost = any(got.get(k, 0) < v for k, v in want.items() if k != "Q")
        key = ["atoms-lost"] if lost else (
            ["charge-changed"] if {k: v for k, v in got.items() if k != "Q"}
            == {k: v for k, v in want.items() if k != "Q"} else ["atoms-gained"])
        if _metal_on_oxygen(smiles):
            # the rewrite treats a metal-bound oxygen like a hydroxyl (sets its H count)
            key.append("metal-alkoxide")
        fails.append({"s": smiles, "key": key, "observed": {"output": out, "composition": got},
                      "expected": {"composition": want}})
    out2, err2 = _apply(out)
    if err2 is not None:
        fails.append({"s": smiles, "key": ["not-idempotent", "second-pass-raises", _kind(err2)],
                      "observed": {"f(x)": out, "f(f(x))": "{}: {}".format(
                          type(err2).__name__, str(err2)[:200])},
                      "expected": "f(f(x)) == f(x)"})
    elif oracle.canon(out2) != oracle.canon(out):
        # 'first-pass-noop': nothing was rewritten in the given atom order but the canonical
        # re-spelling of the same molecule is rewritten (order-dependent group choice);
        # otherwise the first pass converted only some of the groups
        noop = oracle.canon(out) == oracle.canon(smiles)
        fails.append({"s": smiles,
                      "key": ["not-idempotent"] + (["first-pass-noop"] if noop else []),
                      "observed": {"f(x)": out, "f(f(x))": out2},
                      "expected": "f(f(x)) == f(x)"})
    nontrivial = oracle.canon(out) != oracle.canon(smiles)
    if not nontrivial:
        nontrivial = _has_group(smiles)
    return nontrivial, fails


_NONMETAL = {1, 2, 5, 6, 7, 8, 9, 10, 14, 15, 16, 17, 18, 33, 34, 35, 36, 52, 53, 54, 85, 86}


def _metal_on_oxygen(smiles):
    m = oracle.parse(smiles)
    return any(
        a.GetAtomicNum() == 8 and any(n.GetAtomicNum() not in _NONMETAL for n in a.GetNeighbors())
        for a in m.GetAtoms()
    )


def _has_group(smiles):
    """coverage accounting only: does fgutils report an enol/hemiketal group here"""
    try:
        from fgutils import FGQuery

        return any(g[0] in ("enol", "hemiketal") for g in FGQuery().get(smiles))
    except Exception:
        return False


def case_item(smiles):
    r = judge(smiles)
    if r is None:
        return None
    nontrivial, fails = r
    return {"nontrivial": nontrivial, "fails": fails}


def sequence_item(mol):
    """every rooted spelling of one molecule standardised one after the other in one process
    (state kept between calls shows as a spelling-dependent result)"""
    fails = []
    n = 0
    for sp in universe.rooted_spellings(mol) + bracket_spellings(mol)[:2]:
        r = judge(sp)
        if r is None:
            continue
        n += 1
        for f in r[1]:
            fails.append(dict(f, s=sp))
    return {"n": n, "fails": fails[:3]}


HIST_ALPHABET = ["C=C[O-]", "[O-]C=C", "C([O-])=C", "C=C[O-].[Na+]", "[2H]OC=C", "CC(=O)OCC=C[O-]", "C=CO", "OC=C", "C(O)=C", "CC(=O)OC=C.C=CO",
                 "CC(O)O", "OC(C)O", "CC(C)(O)OC", "CCO", "C", "OCCN", "CC(=O)O", "C=COC", "OC=CO", "c1ccccc1O"]


def _fresh_apply(std, smiles):
    from mc.pool import time_limit

    try:
        with time_limit(20):
            return std(smiles)
    except Exception as e:  # noqa: BLE001
        return "raises " + _kind(e)


def history_item(a):
    """two calls on ONE fresh standardizer: f(a), then f(b) for every b - the second answer must be what a fresh
    standardizer gives for b (nothing may survive a call on the object)"""
    from synrbl.SynChemImputer.molecule_standardizer import MoleculeStandardizer

    fails, n = [], 0
    for b in HIST_ALPHABET:
        s1 = MoleculeStandardizer()
        _fresh_apply(s1, a)
        got = _fresh_apply(s1, b)
        want = _fresh_apply(MoleculeStandardizer(), b)
        n += 1
        if got != want:
            fails.append({"a": a, "b": b, "observed": got, "expected": want})
    return {"n": n, "fails": fails[:4]}


# --------------------------------------------------------------------------- driver


def run(tier, seed):
    res = Result("exploration")
    fam = input_space(tier)
    order = []
    owner = {}
    for name in fam:
        for s in fam[name]:
            if s not in owner:
                owner[s] = name
                order.append(s)
    rs = pmap("checks.c20:case_item", order, chunk=50, seed=seed)
    groups = {}
    per_family = {n: {"inputs": 0, "nontrivial": 0, "failing_inputs": 0} for n in fam}
    n_valid = n_nontrivial = 0
    for s, r in zip(order, rs):
        if r is None:
            continue
        pf = per_family[owner[s]]
        n_valid += 1
        pf["inputs"] += 1
        if r["nontrivial"]:
            n_nontrivial += 1
            pf["nontrivial"] += 1
        if r["fails"]:
            pf["failing_inputs"] += 1
        for f in r["fails"]:
            k = repr(f["key"])
            g = groups.setdefault(k, {"key": f["key"], "count": 0, "examples": []})
            g["count"] += 1
            g["examples"].append(dict(f, family=owner[s]))
    by_key = {}
    for k in sorted(groups):
        g = groups[k]
        by_key[k] = g["count"]
        g["examples"].sort(key=lambda e: (oracle.parse(e["s"]).GetNumAtoms(), len(e["s"]),
                                          e["s"]))
        shown = set()
        for e in g["examples"]:
            if e["family"] in shown or len(shown) >= 3:
                continue
            shown.add(e["family"])
            res.add(Violation(e["family"], e["s"], e["observed"], e["expected"], g["key"],
                              "standardising {} gives {} ({} failing input(s) with this "
                              "key)".format(e["s"], e["observed"], g["count"])))
    seq_mols = _dedupe([oracle.canon(m) for m in GEM_SERIES + HEMIKETALS + ENOLS] +
                       ["OC=CCO", "OC=Cc1ccccc1", "CC(O)=CC(C)=O", "OC(O)CC=CO"])
    rs2 = pmap("checks.c20:sequence_item", seq_mols, chunk=2, seed=seed)
    for m, r in zip(seq_mols, rs2):
        n_valid += r["n"]
        for f in r["fails"][:1]:
            res.add(Violation("spelling-sequence", m, f["observed"], f["expected"], ["sequence"] + f["key"],
                              "standardising the spellings of {} one after the other: {} gives {}".format(m, f["s"], f["observed"])))
    rs3 = pmap("checks.c20:history_item", HIST_ALPHABET, chunk=1, seed=seed)
    for a, r in zip(HIST_ALPHABET, rs3):
        n_valid += r["n"]
        for f in r["fails"][:2]:
            res.add(Violation("call-history", {"a": f["a"], "b": f["b"]}, f["observed"], f["expected"], ["history", "second-call-differs"],
                              "one standardizer: after f({}) the call f({}) gives {} but a fresh standardizer gives {}".format(
                                  f["a"], f["b"], f["observed"], f["expected"])))
    res.coverage = {
        "call_histories": len(HIST_ALPHABET) ** 2,
        "evaluations": n_valid,
        "distinct_nontrivial": n_nontrivial,
        "rule": "evaluations = distinct valid input SMILES standardised (each also "
                "re-standardised for idempotence): every rooted spelling of every molecule of "
                "U({{C,O}},5) and U({{C,N,O}},4); [O-], [Na+].[O-] and [Na]O variants of every "
                "hydroxyl of those molecules; {} gem-diol/ortho-acid, {} hemiacetal/hemiketal and {} enol "
                "series molecules in every rooted spelling; all {}x{} ordered pairs of a "
                "{}-molecule alphabet as mixtures{}. distinct_nontrivial = distinct inputs on "
                "which the standardiser raised, changed the molecule, or fgutils reports an "
                "enol/hemiketal group.".format(
                    len(GEM_SERIES), len(HEMIKETALS), len(ENOLS), len(PAIR_ALPHABET),
                    len(PAIR_ALPHABET), len(PAIR_ALPHABET),
                    "; every rooted spelling of U({C,O},6) and U({C,N,O},5); every corpus "
                    "molecule; hydroxyl variants of the series"
                    if tier == "thorough" else ""),
        "samples": ["C(=C)O", "C=C[O-]", "OC=CO", "OC1(C)CCCO1", "[Na+].C=C[O-]",
                    order[len(order) // 2]],
        "per_family": per_family,
        "failing_cases_by_key": by_key,
        "exhaustive": True,
    }
    res.assumptions = [
        "RDKit's parser and the independent composition oracle.comp decide validity and "
        "atom/charge conservation",
        "fgutils.FGQuery.get is memoised per SMILES by the harness (validated pure)",
    ]
    return res


def replay(v):
    if v.sub == "spelling-sequence":
        r = sequence_item(v.case)
    if v.sub == "call-history":
        r = history_item(v.case["a"])
        return [Violation(v.sub, v.case, f["observed"], f["expected"], v.key, "second call differs") for f in r["fails"] if f["b"] == v.case["b"]][:1]
    if v.sub == "spelling-sequence":
        return [Violation(v.sub, v.case, f["observed"], f["expected"], ["sequence"] + f["key"], "sequence")
                for f in r["fails"] if ["sequence"] + f["key"] == v.key][:1]
    r = judge(v.case)
    out = []
    if r is None:
        return out
    for f in r[1]:
        out.append(Violation(v.sub, v.case, f["observed"], f["expected"], f["key"],
                             "standardising {} gives {}".format(v.case, f["observed"])))
    return out
