"""C14 — composition-determined outcomes ignore how the SMILES is written.

E1: every reaction of Rxn(A14,2) whose baseline outcome is input-balanced or rule-based
is re-run in every member of its finite spelling/order family (every spelling of one
molecule at a time, the k-th spelling of all molecules at once, every permutation of the
molecules of each side)."""

import itertools
import json
import os

from checks import pipefam as pf
from mc import oracle, pipeline, universe
from mc.boot import ROOT
from mc.pool import pmap
from mc.report import Result, Violation

PROPERTY = "C14"

A14 = ["CCO", "CC=O", "CC(=O)O", "O", "CCCl", "[H][H]", "Cl", "CC(C)=O", "CC(C)O", "OO",
       "[Na]Cl", "CN", "CC(=O)[O-]", "[Na+]", "O=[N+]([O-])c1ccccc1", "c1ccncc1", "CC(Cl)=O", "CNC(C)=O",
       "[NH3+]CC(=O)[O-]", "NCC(=O)O", "[O-][N+](=O)c1ccc(cc1)[N+](=O)[O-]"]

MARKER_LEFT = ["CC(=O)OO", "CCO", "CC=O", "CCCl", "CC(=O)OO.[Na]Cl"]
MARKER_RIGHT = ["CC(=O)O", "OO", "[H][H]", "O", "CC=O", "CC", "[Na]O"]

# imbalances of three elements / two elements and a charge whose completion needs several rule compounds
MULTI = ["CC(=O)N.[OH-].O>>CC(=O)O", "CC(=O)NC.[OH-].O>>CC(=O)O", "CC(=O)N.O.Cl>>CC(=O)O", "NC(=O)CCl.[OH-].O>>OCC(=O)O",
         "CC(=O)N.[OH-]>>CC(=O)[O-]", "CS(=O)(=O)N.[OH-].O>>CS(=O)(=O)O", "CC(=O)SC.[OH-].O>>CC(=O)O", "NC(=O)N.O.O>>O=C=O",
         "CC(=O)N.O.[Na+].[OH-]>>CC(=O)[O-].[Na+]", "ClC(=O)N.O.O>>O=C=O"]

# given molecules that contain a halogen-halogen bond (the bond the rule stage must never ADD), as spectators next to
# an ordinary rule-based completion: how they are written must not matter
HALOBOND = ["CC(=O)Cl.O.{x}>>CC(=O)O.{x}".format(x=x) for x in ("c1ccccc1I(Cl)Cl", "ICl", "IBr", "BrCl", "ClCl")] + \
           ["CCO.c1ccccc1I(Cl)Cl>>CCCl.O.c1ccccc1I"]

CONTEXT = "CC(=O)O.CCO>>CC(=O)OCC"
# N-H heteroaromatics: the mapped aromatic spelling carries [nH:k]
AROM_NH = ["CC(=O)Cl.c1cc[nH]c1>>CC(=O)n1cccc1", "CC(=O)Cl.c1ccc2[nH]ccc2c1>>CC(=O)n1ccc2ccccc21", "c1cc[nH]c1>>c1cc[nH]c1"]

_VOCAB = None


def template_vocab():
    global _VOCAB
    if _VOCAB is None:
        voc = {"[H][H]", "[H]", "[O]"}
        p = os.path.join(ROOT, "synrbl", "SynChemImputer", "reaction_template.json")
        with open(p) as f:
            data = json.load(f)

        def walk(x):
            if isinstance(x, dict):
                for v in x.values():
                    walk(v)
            elif isinstance(x, list):
                for v in x:
                    walk(v)
            elif isinstance(x, str):
                c = oracle.canon(x)
                if c:
                    for part in c.split("."):
                        voc.add(part)

        walk(data)
        _VOCAB = {oracle.canon(v) or v for v in voc}
    return _VOCAB


def added(rx_in, rx_out):
    """per side: molecules of the output that are not accounted for by the input"""
    a, b = oracle.split_reaction(rx_in), oracle.split_reaction(rx_out)
    if a is None or b is None:
        return None
    out = []
    for si, so in zip(a, b):
        mi, mo = oracle.mols(si, stereo=False), oracle.mols(so, stereo=False)
        if mi is None or mo is None:
            return None
        d = mo - mi
        out.append(dict(d))
    return out


def strip_vocab(side):
    voc = template_vocab() | {"O"}
    return {k: v for k, v in side.items() if k not in voc}


def has_reagent(add):
    """a real template reagent (not just the atomic placeholders / dihydrogen / water) was added"""
    voc = template_vocab() - {"[H]", "[O]", "O", "[H][H]"}
    return any(k in voc for side in add for k in side)


def template_labelled(add):
    voc = template_vocab()
    return any(k in voc for side in add for k in side)


PERM_ATOMS = [4]


def _explicit_bonds(smiles):
    from rdkit import Chem

    m = Chem.MolFromSmiles(smiles)
    if m is None or not any(a.GetIsAromatic() for a in m.GetAtoms()):
        return None
    return Chem.MolToSmiles(m, allBondsExplicit=True)


def variants(rx, max_perm_atoms=None):
    max_perm_atoms = PERM_ATOMS[0] if max_perm_atoms is None else max_perm_atoms
    left, right = [s.split(".") for s in rx.split(">>")]
    mols = left + right
    nl = len(left)
    fam = {}
    spellings = []
    for m in mols:
        sp = universe.spell(m)
        # every bond written out ('-' and the aromatic ':'), e.g. c1:c:c:c:c:c:1 - text that looks like a map number
        eb = _explicit_bonds(m)
        if eb and eb not in sp:
            sp.append(eb)
        if oracle.parse(m).GetNumAtoms() <= max_perm_atoms:
            for s in universe.permutation_spellings(m, max_perm_atoms):
                if s not in sp:
                    sp.append(s)
        spellings.append(sp)

    def build(ms):
        return ".".join(ms[:nl]) + ">>" + ".".join(ms[nl:])

    # one molecule at a time
    for i, sp in enumerate(spellings):
        for s in sp[1:]:
            ms = list(mols)
            ms[i] = s
            fam.setdefault(build(ms), "spell[{}]".format(i))
    # all at once: k-th spelling of every molecule
    kmax = max(len(sp) for sp in spellings)
    for k in range(1, kmax):
        ms = [sp[k % len(sp)] for sp in spellings]
        fam.setdefault(build(ms), "spell-all[{}]".format(k))
    # every permutation of each side
    for pl in itertools.permutations(left):
        for pr in itertools.permutations(right):
            fam.setdefault(".".join(pl) + ">>" + ".".join(pr), "order")
    fam.pop(rx, None)
    return fam


def compare(rx, base, var_rx, row):
    out = []
    if (bool(base.get("solved")), base.get("solved_by")) != (bool(row.get("solved")), row.get("solved_by")):
        tag = "[H][H]" if ("[H][H]" in rx or "[HH]" in var_rx) else "other"
        out.append((["verdict-changes", tag],
                    "{} is {}/{} but its variant {} is {}/{}".format(
                        rx, base.get("solved"), base.get("solved_by"), var_rx, row.get("solved"), row.get("solved_by"))))
        return out
    a0 = added(rx, base.get("reaction"))
    a1 = added(var_rx, row.get("reaction"))
    if a0 is None or a1 is None:
        out.append((["unparsable-result"], "result of {} or {} does not parse".format(rx, var_rx)))
        return out
    if a0 != a1:
        # "apart from the choice of redox reagent template": one result carries a reagent
        # template where the other carries the bare [H] / [O] placeholders (or another template)
        if (has_reagent(a0) or has_reagent(a1)) and template_labelled(a0) and template_labelled(a1) \
                and [strip_vocab(s) for s in a0] == [strip_vocab(s) for s in a1]:
            return out
        out.append((["added-molecules-differ", base.get("solved_by")],
                    "{} adds {} but its variant {} adds {}".format(rx, a0, var_rx, a1)))
    return out


def job(rx):
    if isinstance(rx, (list, tuple)):
        rx, PERM_ATOMS[0] = rx[0], rx[1]
    base = pipeline.run({"rxns": [rx]})
    if not base["rows"]:
        return {"n": 0, "cd": False, "bad": [{"key": ["row-count"], "what": "no row for " + rx, "var": rx}]}
    b = base["rows"][0]
    if b.get("solved_by") not in ("input-balanced", "rule-based"):
        return {"n": 0, "cd": False, "bad": []}
    fam = variants(rx)
    vs = sorted(fam)
    bad = []
    rows = []
    for i in range(0, len(vs), 25):
        # every variant batch starts with an unrelated row that the rule stage completes on the product side, so that a
        # variant is never the first row the stages see (loop state carried from one row to the next would show)
        out = pipeline.run({"rxns": [CONTEXT] + vs[i:i + 25]})
        if out["rows"] is None or len(out["rows"]) != len(vs[i:i + 25]) + 1:
            culprit = vs[i]
            for cand in vs[i:i + 25]:
                o = pipeline.run({"rxns": [CONTEXT, cand]})
                if o["rows"] is None or len(o["rows"]) != 2:
                    culprit = cand
                    break
            bad.append({"key": ["row-count"], "what": "the spelling {} of {} gets no result row".format(culprit, rx), "var": culprit})
            return {"n": 0, "cd": True, "bad": bad}
        rows.extend(out["rows"][1:])
    same = templ = 0
    for v, row in zip(vs, rows):
        for key, what in compare(rx, b, v, row):
            bad.append({"key": key, "what": what, "var": v})
    return {"n": len(vs), "cd": True, "bad": bad, "by": b.get("solved_by")}


# alkali metals / hydride as the test-suite spells them, mapped and unmapped, with atom-map removal off
NOAAM = ["OCCO.[Na].[Na]>>[O-]CC[O-].[Na+].[Na+]", "CCO.[K]>>CC[O-].[K+]", "CO.[Li]>>C[O-].[Li+]", "CCO.[H-].[Na+]>>CC[O-].[Na+]",
         "CC(=O)C.[H-].[Na+]>>CC(O)C", "CCO>>CC=O", "CC(=O)C>>CC(O)C"]


def noaam_job(rx):
    """the same reaction unmapped and in its atom-mapped spellings with remove_aam switched off:
    same verdict, same added molecules (maps cleared before comparing)"""
    from rdkit import Chem

    def mapped(side, start):
        m = Chem.MolFromSmiles(side)
        for a in m.GetAtoms():
            a.SetAtomMapNum(start + a.GetIdx())
        return Chem.MolToSmiles(m, canonical=False)

    l, r = rx.split(">>")
    vs = [mapped(l, 1) + ">>" + mapped(r, 1), mapped(l, 11) + ">>" + r, l + ">>" + mapped(r, 5)]
    base = pipeline.run({"rxns": [rx], "remove_aam": False})["rows"]
    bad = []
    if not base:
        return {"n": 0, "bad": [{"key": ["row-count"], "what": "no row", "var": rx}]}
    b = base[0]
    if b.get("solved_by") not in ("input-balanced", "rule-based"):
        return {"n": 0, "bad": []}
    rows = pipeline.run({"rxns": vs, "remove_aam": False})["rows"] or []
    for v, row in zip(vs, rows):
        for key, what in compare(rx, b, v, row):
            bad.append({"key": ["remove_aam-off"] + key, "what": what, "var": v})
    return {"n": len(vs), "bad": bad}


def run(tier, seed):
    res = Result("exploration")
    alpha = A14 if tier == "thorough" else A14[:8]
    rxns = pf.dedupe(universe.Rxn(alpha, 2))
    if tier == "quick":
        # the complete one-molecule-per-side universe over the full alphabet as well
        rxns = pf.dedupe(rxns + universe.Rxn(A14, 1))
    # marker family: molecules that spell like the pipeline's placeholders on the product side
    # next to a reactant-side or product-side completion
    rxns = pf.dedupe(rxns + [l + ">>" + a + "." + b for l in MARKER_LEFT for a in MARKER_RIGHT for b in MARKER_RIGHT])
    rxns = pf.dedupe(rxns + MULTI + HALOBOND + AROM_NH)
    perm = 4 if tier == "thorough" else 3
    r = pmap("checks.c14:job", [(x, perm) for x in rxns], chunk=8, seed=seed, timeout=7200)
    n_cd = n_var = 0
    by = {}
    for rx, x in zip(rxns, r):
        if x["cd"]:
            n_cd += 1
            n_var += x["n"]
            by[x.get("by")] = by.get(x.get("by"), 0) + 1
        for b in x["bad"]:
            res.add(Violation("spelling", {"rxn": rx, "variant": b["var"]}, None, None, b["key"], b["what"]))
    rn = pmap("checks.c14:noaam_job", NOAAM, chunk=1, seed=seed)
    for rx, x in zip(NOAAM, rn):
        n_var += x["n"]
        for b in x["bad"]:
            res.add(Violation("remove_aam-off", {"rxn": rx, "variant": b["var"]}, None, None, b["key"], b["what"]))
    res.coverage = {
        "evaluations": len(rxns) + n_var,
        "distinct_nontrivial": n_var,
        "rule": "all {} reactions of Rxn(A14{},2){} and of a marker family (peracid / alcohol / aldehyde / chloride >> every ordered pair of 7 product molecules incl. OO, [H][H], O) and of a family of multi-element / charged imbalances; for each of the {} with a composition-determined baseline "
                "(input-balanced or rule-based) every variant of its spelling/order family is run: rooted, all atom "
                "permutations (<= {} heavy atoms), kekulised, explicit-H and three atom-mapped spellings of one molecule "
                "at a time, k-th spelling of all at once, all permutations of each side.  Non-trivial = distinct "
                "variants whose text differs from the baseline reaction.".format(
                    len(rxns), "" if tier == "thorough" else "[:8]",
                    "" if tier == "thorough" else " + Rxn(A14,1)", n_cd, perm),
        "samples": [rxns[5], sorted(variants("CCCl.[H][H]>>CC"))[:6]],
        "composition_determined": n_cd,
        "baseline_by_method": by,
        "exhaustive": True,
    }
    res.assumptions = ["'all equivalent spellings' is read as the finite Spell family of DESIGN §2.1",
                       "variants of one reaction are run as one batch (batch independence is C06's property)"]
    return res


def replay(v):
    rx, var = v.case["rxn"], v.case["variant"]
    if v.sub == "remove_aam-off":
        x = noaam_job(rx)
        return [Violation(v.sub, v.case, None, None, b["key"], b["what"]) for b in x["bad"] if b["key"] == v.key and b["var"] == var][:1]
    base = pipeline.run({"rxns": [rx], "fresh": True})["rows"]
    out = pipeline.run({"rxns": [CONTEXT, var], "fresh": True})["rows"]
    lost = not base or out is None or len(out) != 2
    if v.key == ["row-count"]:
        return [Violation("spelling", v.case, None, None, v.key, "no result row for " + var)] if lost else []
    if lost:
        return []
    b, row = base[0], out[1]
    return [Violation("spelling", v.case, row, b, key, what) for key, what in compare(rx, b, var, row) if key == v.key]
