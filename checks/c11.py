"""C11 — MCS-stage timeouts and failures are contained to the affected reaction.

E3 (fault enumeration): the thread-pool seam decides the outcome of every wait of the MCS
stage (complete / timeout, the job never runs / timeout with an abandoned worker whose
writes land later), the RDKit seam injects cancelled and failing searches.
 (a) all subsets of the thread-pool jobs of a batch hit by a timeout (complete 2^J tree);
 (b) all patterns with <= 1 (thorough 2) faults of any kind (timeouts, cancelled / raising
     RDKit searches);
 (c) every single abandoned worker ("zombie"): its writes land together at every later
     scheduling point (thorough: also split over every pair of points, and at every call
     of a synrbl function);
 (d) (a) again with per-task pickling isolation (what a process worker returns).
Oracle, against the fault-free run of the same batch: no row lost; rows of reactions no
fault was injected into are identical; every affected row is solved and balanced, or
declined unchanged with a non-empty issue.
Conformance: every single-timeout pattern is replayed against the REAL thread pool with a
real sleep longer than the 2 s wait injected into that job.
"""

import json
import re

from mc import explore, oracle, pipeline
from mc.boot import HarnessError
from mc.pool import pmap
from mc.report import Result, Violation

PROPERTY = "C11"

A = "CC(=O)OCC>>CC(=O)O"                       # mcs-solvable
B = "CC(=O)OCC.CCC>>CC(=O)O.CCC"               # mcs-solvable, two reactants
C = "CCO>>CC=O"                                # rule-based
D = "CC>>CCC"                                  # declined
E = "CCOC(=O)CC(=O)OCC>>OC(=O)CC(=O)O"         # mcs-solvable, two boundaries
BATCHES = {"ABC": [A, B, C], "DAB": [D, A, B], "EAD": [E, A, D], "AC": [A, C], "A": [A], "CB": [C, B]}
FINE_FILES = ("mcs_search.py", "mcs_process.py", "extract_common_mcs.py", "find_graph_dict.py", "mcs_based_method.py",
              "balancing.py", "uncertainty_graph.py")
KEYS = ("reaction", "solved", "solved_by", "confidence", "rules", "issue", "input_reaction")


def _run(rxns):
    def f():
        b = pipeline.balancer()
        b.confidence_threshold = 0
        rows = b.rebalance(list(rxns), output_dict=True)
        return [pipeline.norm_row(r) for r in rows]

    return f


_BASE = {}


def baseline(name):
    if name not in _BASE:
        rows, ctl = explore.check_replay(_run(BATCHES[name]), {}, ("pool", "rdkit"),
                                         canon=lambda o: json.dumps(o, sort_keys=True, default=str))
        _BASE[name] = rows
    return _BASE[name]


LAND_PREFIXES = ("parallel-", "task:", "pool-get:", "call:")


def affected_rows(rxns, dev):
    """row indices a deviation set may affect, from the labels of the deviated fault
    points (landing points carry no attribution of their own: the writes that land belong
    to the zombie's job)"""
    out = set()
    for lab, alt in dev.values():
        if lab.startswith(LAND_PREFIXES):
            continue
        m = re.search(r"@id=(\d+)", lab)
        if m:
            out.add(int(m.group(1)))
        m2 = re.search(r"@mols=([^>,]*)", lab)
        if m2:
            want = oracle.mols(m2.group(1), stereo=False)
            for i, rx in enumerate(rxns):
                for side in rx.split(">>"):
                    if oracle.mols(side, stereo=False) == want:
                        out.add(i)
        if not m and not m2:
            out.update(range(len(rxns)))  # unattributed fault point: any row may be hit
    return out


def judge(name, rows, dev):
    rxns = BATCHES[name]
    base = baseline(name)
    bad = []
    if rows is None or len(rows) != len(rxns):
        return [(["row-lost"], "{} rows for {} reactions".format(None if rows is None else len(rows), len(rxns)))]
    aff = affected_rows(rxns, dev)
    for i, (rx, row, b0) in enumerate(zip(rxns, rows, base)):
        same = [row.get(k) for k in KEYS] == [b0.get(k) for k in KEYS]
        if i not in aff:
            if not same:
                cols = [k for k in KEYS if row.get(k) != b0.get(k)]
                bad.append((["unaffected-row-changed", ",".join(cols)],
                            "row {} ({}) had no fault but differs from the fault-free run in {}: {} vs {}".format(
                                i, rx, cols, [row.get(k) for k in cols], [b0.get(k) for k in cols])))
            continue
        if same:
            continue
        if row.get("solved"):
            if not oracle.balanced(row.get("reaction") or ""):
                bad.append((["affected-solved-unbalanced"], "row {} ({}) solved under faults but unbalanced: {}".format(i, rx, row.get("reaction"))))
        else:
            if row.get("reaction") != row.get("input_reaction"):
                bad.append((["affected-declined-modified"], "row {} ({}) declined under faults but returned {}".format(i, rx, row.get("reaction"))))
            if not isinstance(row.get("issue"), str) or row.get("issue").strip() == "":
                bad.append((["affected-declined-without-issue"], "row {} ({}) declined under faults without an issue".format(i, rx)))
        if row.get("input_reaction") != b0.get("input_reaction"):
            bad.append((["affected-input-changed"], "row {} input_reaction changed under faults".format(i)))
    return bad


MODES = {
    # name: (active classes, pool alternatives, rdkit alternatives, cost function, fine points)
    "timeouts": (("pool",), ("complete", "timeout"), ("normal",), lambda c, l, a: 0, False),
    "faults": (("pool", "rdkit", "poolnew"), ("complete", "timeout"), ("normal", "cancel", "raise"), lambda c, l, a: 1, False),
    "zombie": (("pool", "land"), ("complete", "zombie"), ("normal",), None, False),
    "zombie-fine": (("pool", "land"), ("complete", "zombie"), ("normal",), None, True),
}


def _cost_for(mode, bound):
    active, pa, ra, cost, fine = MODES[mode]
    if cost is not None:
        return cost

    def c(cls, label, alt):
        # the zombie itself weighs 100 (exactly one fits the bounds 101 / 102), every
        # landing decision (land j of the pending writes at this point) weighs 1
        return 100 if cls == "pool" else 1

    return c


def subtree_job(job):
    name, mode, bound, iso = job["batch"], job["mode"], job["bound"], job.get("iso", "inline")
    active, pa, ra, _, fine = MODES[mode]
    cost = _cost_for(mode, bound)
    root = explore.dev_from_json(job["root"])
    bad, outcomes = [], set()
    counts = {"land": 0}

    def on_exec(dev, rows, ctl):
        outcomes.add(json.dumps([[r.get(k) for k in KEYS] for r in rows], sort_keys=True, default=str))
        if any(p.cls == "land" and p.chosen for p in ctl.points):
            counts["land"] += 1
        for k, w in judge(name, rows, dev):
            bad.append({"key": k, "what": "[{} {}] {} faults={}".format(name, mode, w, explore.dev_to_json(dev)), "dev": explore.dev_to_json(dev)})

    n, cap = explore.subtree(_run(BATCHES[name]), root, active, bound, cost=cost, on_exec=on_exec,
                             pool_alts=pa, rdkit_alts=ra, fine_points=fine, fine_files=FINE_FILES if fine else None,
                             isolation=iso, split=tuple(job["split"]) if job.get("split") else None)
    return {"n": n, "bad": bad[:200], "nbad": len(bad), "outcomes": sorted(outcomes), "landed": counts["land"]}


def roots_job(job):
    name, mode, bound, iso = job["batch"], job["mode"], job["bound"], job.get("iso", "inline")
    active, pa, ra, _, fine = MODES[mode]
    cost = _cost_for(mode, bound)
    canon = lambda o: json.dumps(o, sort_keys=True, default=str)  # noqa: E731
    rows, ctl = explore.check_replay(_run(BATCHES[name]), {}, active, canon=canon, pool_alts=pa, rdkit_alts=ra,
                                     fine_points=fine, fine_files=FINE_FILES if fine else None, isolation=iso)
    kids = explore.children(ctl, {}, bound, cost)
    return {"roots": [explore.dev_to_json(d) for d in kids],
            "pool_jobs": [p.label for p in ctl.points if p.cls == "pool"],
            "rdkit_calls": sum(1 for p in ctl.points if p.cls == "rdkit"),
            "sched_points": ctl.sched_count}


def history_case(case):
    """(e) a faulted run followed by a fault-free run of the same batch in ONE process: the
    second run must give the fault-free rows (a fault must not outlive its run).  Must be
    executed in a process that has not run anything else (see history_subprocess)."""
    name, mode = case["batch"], case["mode"]
    active, pa, ra, _, fine = MODES[mode]
    base = baseline(name)
    dev = explore.dev_from_json(case["deviations"])
    rows1, _ = explore.execute(_run(BATCHES[name]), dev, active, pool_alts=pa, rdkit_alts=ra)
    rows2, ctl2 = explore.execute(_run(BATCHES[name]), {}, active, pool_alts=pa, rdkit_alts=ra)
    bad = []
    if len(rows2) != len(base):
        bad.append({"key": ["fault-outlives-run", "row-lost"], "what": "fault-free run after a faulted run returns {} rows".format(len(rows2))})
    else:
        for i, (r, b0) in enumerate(zip(rows2, base)):
            if [r.get(k) for k in KEYS] != [b0.get(k) for k in KEYS]:
                cols = [k for k in KEYS if r.get(k) != b0.get(k)]
                bad.append({"key": ["fault-outlives-run", ",".join(cols)],
                            "what": "[{}] after a run with faults {} a fault-free run of the same batch gives row {} = {} instead of {}".format(
                                name, case["deviations"], i, [r.get(k) for k in cols], [b0.get(k) for k in cols])})
    return bad


def history_roots(case):
    """the single-timeout deviations of a batch, computed from the FIRST execution of a fresh
    interpreter (the point indices are then valid for history_case, whatever state the code
    under test keeps between executions)"""
    name, mode = case["batch"], case["mode"]
    active, pa, ra, _, fine = MODES[mode]
    _, ctl = explore.execute(_run(BATCHES[name]), {}, active, pool_alts=pa, rdkit_alts=ra)
    return [explore.dev_to_json(d) for d in explore.children(ctl, {}, 0, _cost_for(mode, 0))]


def history_subprocess(case, func="history_case"):
    """run history_case in a fresh interpreter (no state from earlier executions)"""
    import subprocess
    import sys as _sys

    from mc.boot import VERIF as _V

    p = subprocess.run([_sys.executable, "-c",
                        "import sys, json; sys.path.insert(0, %r); from mc import boot; boot.boot(); from checks import c11; "
                        "print('RESULT ' + json.dumps(getattr(c11, sys.argv[2])(json.loads(sys.argv[1]))))" % _V, json.dumps(case), func],
                       capture_output=True, text=True, timeout=1800)
    for line in p.stdout.splitlines():
        if line.startswith("RESULT "):
            return json.loads(line[7:])
    return [{"key": ["history-harness"], "what": "history subprocess failed: " + (p.stderr.strip().splitlines() or ["?"])[-1][:200]}]


def conformance_job(job):
    """real thread pool, real sleep > 2 s in the k-th single_mcs / fragment-analysis call"""
    from checks.c06 import real_run

    name, site, k, label = job["batch"], job["site"], job["k"], job["label"]
    rxns = BATCHES[name]
    canon = lambda rows: json.dumps([[r.get(x) for x in KEYS] for r in rows], sort_keys=True, default=str)  # noqa: E731
    active, pa, ra, _, fine = MODES["timeouts"]
    base_rows, ctl = explore.execute(_run(rxns), {}, active, pool_alts=pa, rdkit_alts=ra)
    pts = [p for p in ctl.points if p.cls == "pool" and p.label == label]
    if not pts:
        return {"ok": False, "what": "job {} not found in the controlled run".format(label)}
    # the controlled execution with exactly this job timing out (worker never heard of again)
    rows, _ = explore.execute(_run(rxns), {pts[0].index: (label, 1)}, active, pool_alts=pa, rdkit_alts=ra)
    want = {canon(rows)}
    real = real_run(rxns, 1, slow={"site": site, "calls": [k], "sleep": 3.0})
    if "error" in real:
        return {"ok": False, "what": "real run failed: " + real["error"]}
    got = canon(real["rows"])
    if got in want:
        return {"ok": True, "differs_from_fault_free": got != canon(base_rows)}
    if site == "single_mcs":
        # the abandoned real worker wakes up after 3 s: its writes may have landed somewhere
        active, pa, ra, _, fine = MODES["zombie"]
        _, ctl = explore.execute(_run(rxns), {}, active, pool_alts=pa, rdkit_alts=ra)
        pts = [p for p in ctl.points if p.cls == "pool" and p.label == label]

        def on_exec(dev, rows, c):
            want.add(canon(rows))

        explore.subtree(_run(rxns), {pts[0].index: (label, 1)}, active, 101, cost=_cost_for("zombie", 1), on_exec=on_exec,
                        pool_alts=pa, rdkit_alts=ra)
        if got in want:
            return {"ok": True, "differs_from_fault_free": True}
    return {"ok": False, "what": "real thread pool with a 3 s sleep in {} call {} gives rows {} - none of the {} controlled outcomes".format(
        site, k, got[:600], len(want))}


def run(tier, seed):
    res = Result("fault_enumeration")
    thorough = tier == "thorough"
    plan = []  # (batch, mode, bound, iso)
    if thorough:
        for b in ("ABC", "DAB", "EAD"):
            plan += [(b, "timeouts", 0, "inline"), (b, "zombie", 101, "inline")]
        plan += [("ABC", "faults", 2, "inline"), ("EAD", "faults", 2, "inline"), ("DAB", "faults", 1, "inline"),
                 ("ABC", "timeouts", 0, "task"), ("DAB", "timeouts", 0, "task"), ("ABC", "faults", 1, "task"),
                 ("A", "zombie", 102, "inline"), ("CB", "zombie", 101, "inline"), ("A", "zombie-fine", 101, "inline")]
    else:
        plan += [("ABC", "timeouts", 0, "inline"), ("ABC", "faults", 1, "inline"), ("AC", "zombie", 101, "inline"),
                 ("ABC", "timeouts", 0, "task"), ("EAD", "faults", 1, "inline"), ("CB", "timeouts", 0, "inline")]
    rj = [{"batch": b, "mode": m, "bound": bd, "iso": iso} for b, m, bd, iso in plan]
    # (e) first: a fault must not outlive its run.  Each history runs in a fresh interpreter, and so does the
    # execution that enumerates the single-timeout deviations (code that keeps state between executions may
    # show different choice points in a long-lived worker - which is what this sub-check is there to find,
    # and what the replay check of roots_job below turns into a harness error)
    hroots = history_subprocess({"batch": plan[0][0], "mode": "timeouts"}, "history_roots")
    if hroots and isinstance(hroots[0], dict):
        raise HarnessError(hroots[0]["what"])
    hist_cases = [{"batch": plan[0][0], "mode": "timeouts", "deviations": d} for d in hroots]
    rh = pmap("checks.c11:history_subprocess", hist_cases, chunk=1, seed=seed, timeout=7200)
    leaked = False
    for c, bad in zip(hist_cases, rh):
        for b in bad:
            if b["key"][0] == "history-harness":
                raise HarnessError(b["what"])
            leaked = True
            res.add(Violation("history", c, None, None, b["key"], b["what"]))
    if leaked:
        res.observations.append("a fault outlives its run: the stateless exploration below assumes independent executions and was skipped")
        res.coverage = {"evaluations": 2 * len(hist_cases), "distinct_nontrivial": len(hist_cases),
                        "rule": "histories [faulted run, fault-free run] in fresh interpreters; exploration skipped because state leaks between runs",
                        "samples": hist_cases[:2], "exhaustive": False}
        return res
    roots = pmap("checks.c11:roots_job", rj, chunk=1, seed=seed, timeout=7200)
    sj = []
    info = {}
    for j, r in zip(rj, roots):
        info["{}/{}/{}".format(j["batch"], j["mode"], j["iso"])] = {"pool_jobs": len(r["pool_jobs"]), "rdkit_calls": r["rdkit_calls"],
                                                                     "sched_points": r["sched_points"], "first_level": len(r["roots"])}
        sj.append(dict(j, root=[]))
        sj[-1]["bound"] = -1  # the fault-free execution itself only
        nsplit = 8 if j["mode"].startswith("zombie") or j["mode"] == "timeouts" else 1
        for d in r["roots"]:
            for k in range(nsplit):
                sj.append(dict(j, root=d, split=[k, nsplit] if nsplit > 1 else None))
    rs = pmap("checks.c11:subtree_job", sj, chunk=1, seed=seed, timeout=14400)
    n_exec = landed = 0
    outcomes = {}
    per_mode = {}
    for j, x in zip(sj, rs):
        n_exec += x["n"]
        landed += x["landed"]
        per_mode[j["mode"]] = per_mode.get(j["mode"], 0) + x["n"]
        outcomes.setdefault(j["batch"], set()).update(x["outcomes"])
        for b in x["bad"]:
            res.add(Violation("faults", {"batch": j["batch"], "mode": j["mode"], "iso": j["iso"], "deviations": b["dev"]},
                              None, None, b["key"], b["what"]))
    # conformance against the real thread pool
    cj = []
    r0 = roots[0]
    seen_sites = {"single_mcs": 0, "find_missing_parts_pairs": 0}
    for lab in r0["pool_jobs"]:
        site = "single_mcs" if lab.startswith("single_mcs") else "find_missing_parts_pairs"
        k = seen_sites[site]
        seen_sites[site] += 1
        cj.append({"batch": plan[0][0], "site": site, "k": k, "label": lab})
    if not thorough:
        cj = cj[:2] + cj[-1:]
    rc = pmap("checks.c11:conformance_job", cj, chunk=1, seed=seed, timeout=7200)
    validated = 0
    for j, x in zip(cj, rc):
        if x["ok"]:
            validated += 1
        else:
            res.add(Violation("conformance", j, None, None, ["conformance", "real-thread-pool"], x["what"]))
    n_out = sum(len(v) for v in outcomes.values())
    res.coverage = {
        "evaluations": n_exec + 2 * len(hist_cases),
        "distinct_nontrivial": n_out,
        "rule": "deviation-bounded exploration of the thread-pool / RDKit / landing choice points of the MCS stage for "
                "1..3-row batches: complete 2^J timeout subsets, all fault patterns within the bound, every "
                "single zombie with its writes landing at every later scheduling point{}; each execution judged against the "
                "fault-free run.  distinct_nontrivial = distinct row tables observed.".format(
                    " (and every split over two points; every synrbl call event for one batch)" if thorough else ""),
        "samples": [sj[1], {"pool_jobs": r0["pool_jobs"]}],
        "executions": n_exec,
        "executions_per_mode": per_mode,
        "executions_with_a_landed_zombie_write": landed,
        "fault_then_fault_free_histories": len(hist_cases),
        "plan": info,
        "distinct_outcomes": {k: len(v) for k, v in outcomes.items()},
        "traces_validated_against_impl": validated,
        "conformance_runs": len(cj),
        "exhaustive": True,
    }
    res.assumptions = [
        "an abandoned worker communicates with the main thread only through item assignments on the record it was given "
        "(any other mutation is a harness error); its writes land atomically at scheduling points (seam crossings; "
        "thorough also every call of a function under synrbl/)",
        "wall-clock timeouts under CPU load are modelled by the timeout alternative of the thread-pool seam; bound to the "
        "real ThreadPool by the conformance runs (real sleep of 3 s in the job)",
    ]
    return res


def replay(v):
    c = v.case
    if v.sub == "history":
        return [Violation(v.sub, c, None, None, b["key"], b["what"]) for b in history_subprocess(c) if b["key"] == v.key]
    if v.sub == "conformance":
        x = conformance_job(c)
        return [] if x["ok"] else [Violation(v.sub, c, None, None, v.key, x["what"])]
    mode = c["mode"]
    active, pa, ra, _, fine = MODES[mode]
    dev = explore.dev_from_json(c["deviations"])
    canon = lambda o: json.dumps(o, sort_keys=True, default=str)  # noqa: E731
    rows, ctl = explore.check_replay(_run(BATCHES[c["batch"]]), dev, active, canon=canon, pool_alts=pa, rdkit_alts=ra,
                                     fine_points=fine, fine_files=FINE_FILES if fine else None, isolation=c.get("iso", "inline"))
    return [Violation(v.sub, c, rows, baseline(c["batch"]), k, w) for k, w in judge(c["batch"], rows, dev) if k == v.key]
