"""C04 — an already balanced reaction passes through unchanged as input-balanced, and
only balanced inputs are labelled input-balanced.

E1: every curated balanced corpus reaction, its reversal, doubling and unions of
neighbours; all members of the generated universes (balanced ones for the forward
direction, all of them for the converse)."""

from checks import pipefam as pf
from mc import oracle

PROPERTY = "C04"

IONS_HEAVY = ["[Na+].[Cl-]", "[Na]Cl", "CC(=O)[O-].[Na+]", "CC(=O)O[Na]", "[U]", "[Th]",
              "F[U](F)(F)(F)(F)F", "[NH4+].[Cl-]", "N.Cl", "[H+].[Cl-]", "[13CH4]", "C", "[2H]O", "O"]


def corpus_family(limit=None):
    exp = [r for r in pf.corpus_reactions("expected_reaction")]
    exp = [r for r in exp if pf.in_domain(r) and oracle.balanced(r)]
    if limit:
        step = max(1, len(exp) // limit)
        # a complete arithmetic slice of the corpus, not a random sample
        exp = exp[::step]
    fam = []
    for i, r in enumerate(exp):
        a, b = r.split(">>")
        fam.append(r)
        fam.append(b + ">>" + a)
        fam.append(a + "." + a + ">>" + b + "." + b)
        if i + 1 < len(exp):
            a2, b2 = exp[i + 1].split(">>")
            fam.append(a + "." + a2 + ">>" + b + "." + b2)
    return pf.dedupe(fam)


def universes(tier):
    us = []
    alpha = pf.A01[:8] if tier == "quick" else pf.A01
    us.append(("Rxn(A01,2) fwd+converse", pf.dedupe(pf.rxn_universe(alpha, 2)), {}, 25 if tier == "quick" else 40))
    us.append(("ions+heavy Rxn(.,2) fwd+converse", pf.dedupe(pf.rxn_universe(IONS_HEAVY, 2 if tier == "thorough" else 1) + pf.SPECIAL), {}, 30))
    us.append(("hand (converse)", pf.dedupe(pf.HAND), {}, 6))
    us.append(("size ladder (fwd+converse)", pf.dedupe(pf.LARGE), {}, 3))
    us.append(("corpus expected family", corpus_family(None if tier == "thorough" else 150), {}, 40))
    # rows of an earlier result table fed in again: the tool's own output columns are pre-populated
    stale = {"solved": True, "solved_by": "mcs-based", "issue": "stale issue", "confidence": 0.1, "rules": ["stale"],
             "input_reaction": "C>>C"}
    bal = [r for r in pf.dedupe(pf.rxn_universe(pf.A01[:6], 2) + pf.SPECIAL + pf.HAND) if oracle.balanced(r) and pf.in_domain(r)]
    pre = []
    for i, r in enumerate(bal):
        row = {"reaction": r}
        row.update(stale)
        if i % 3 == 1:
            row["solved_by"] = "rule-based"
        if i % 3 == 2:
            row = {"reaction": r, "solved_by": "mcs-based"}
        pre.append(row)
        if i % 4 == 0:
            pre.append({"reaction": r})   # a fresh row in the same batch
    us.append(("pre-populated output columns", pre, {}, 5))
    # batch sizes that do not divide the number of rows / exceed it
    for bs in (2, 4, 9):
        us.append(("balanced rows batch_size={}".format(bs), bal[:21], {"batch_size": bs}, 7))
    us += pf.ids_universes()
    return us


def run(tier, seed):
    us = universes(tier)
    res = pf.drive(PROPERTY, us, seed)
    nbal = sum(1 for _, rx, _, _ in us for r in rx if oracle.balanced(r if isinstance(r, str) else r["reaction"]))
    res.coverage["balanced_inputs"] = nbal
    res.coverage["rule"] = (
        "every curated balanced corpus reaction (closed-shell, balanced by the independent "
        "model) with its reversal, doubling and union with its neighbour (quick: every k-th "
        "corpus row, thorough: all); every member of Rxn(A01,2), of the ion/heavy-element "
        "alphabet and of the hand-built list for the converse; balanced reactions as dict rows whose output columns are "
        "pre-populated (a result table fed in again), mixed with fresh rows.  Non-trivial = distinct inputs, "
        "counted separately for balanced and unbalanced ones."
    )
    res.coverage["samples"] = [us[0][1][0], us[1][1][3], us[3][1][0][:200], us[-1][1][0]]
    res.assumptions = ["balance is decided by the independent composition model (RDKit)",
                       "closed-shell domain: inputs with radical atoms ([O], [H] placeholders) are filtered"]
    return res


def replay(v):
    return pf.replay_rows(v, PROPERTY)
