"""C06 — a reaction's result does not depend on its batch context.

(a) E1: all ordered sub-batches of size 1..3 of a 16-reaction base set (one reaction per
    pipeline path) and the full set under every batch size; rows compared with the
    alone-run rows; statistics of a batched run = key-wise sum of its batches' statistics,
    equal for every partition.
(b) E3: for fixed 3-row batches every joblib.Parallel call x every non-default task order
    (deviation bound 1; thorough 2) x isolation in {inline, per-task, per-chunk pickling}.
(c) conformance of the scheduler model: the same batch through the REAL joblib (loky
    processes, real thread pools) for several worker counts must give the controlled
    default schedule's rows and statistics.
(d) repeated runs on one Balancer instance.
"""

import itertools
import json
import os
import subprocess
import sys
import tempfile

from mc import explore, pipeline, seams
from mc.boot import ROOT, VERIF
from mc.pool import pmap
from mc.report import Result, Violation

PROPERTY = "C06"

B06 = [
    "CC(=O)OCC>>CC(=O)O",                                  # mcs: ester hydrolysis
    "CCO>>CC=O",                                           # rule-based + PCC template
    "CC(=O)C>>CC(O)C",                                     # rule-based + H2
    "CC(=O)O.CCO>>CC(=O)OCC.O",                            # input-balanced
    "CC>>CCC",                                             # declined: carbon deficit
    "CCCC>>CC.C",                                          # declined: imputation fails
    "CCO.O>>CC(=O)O",                                      # oxidation to acid
    "c1ccccc1Br.OB(O)c1ccccc1>>c1ccccc1-c1ccccc1",         # rule-based (Suzuki)
    "CC(=O)OCC.[Na+].[OH-]>>CC(=O)[O-].[Na+]",             # mcs with ions
    "CC(=O)Cl.NCc1ccccc1>>CC(=O)NCc1ccccc1",               # rule-based (amide), product side imputed
    "CCBr>>N",                                             # reaches the MCS stage, no common substructure at all
    "Oc1ccccc1O>>O=C1C=CC=CC1=O.OO",                       # rule-based, reactant side imputed, a given OO
    "CC=O.CC=O>>CC(O)CC=O",                                # input-balanced, a repeated molecule
    "CC=O>>CCO",                                           # rule-based, the same molecule once
    "ClCCCl.[O-]CC[O-]>>C1COCCO1",                         # rule-based: missing {Cl:2, Q:-2}
    "CC=CC>>CC(Cl)C(Cl)C",                                 # rule-based: missing {Cl:2} - same atoms, no charge
    # a pair that ends with the same product-side text: here Cl2 is GIVEN and the completion goes to the reactants ...
    "ClC#CCl.ClCl>>ClC=CCl.ClCl",
    "ClC(Cl)C(Cl)Cl>>ClC=CCl",                             # ... here the rule search would ADD Cl2 (banned addition)
]
EXTRA = "CCN(CC)CC.CC(=O)Cl.OCc1ccccc1>>CC(=O)OCc1ccccc1"  # mcs with catalyst pass-through
SCHED_BATCHES = [
    [B06[0], B06[1], B06[3]],
    [B06[8], B06[5], B06[2]],
    [EXTRA, B06[6], B06[0]],
]
KEYS = ("reaction", "solved", "solved_by", "confidence", "rules", "issue", "input_reaction")
STAT_KEYS = ("reaction_cnt", "balanced_cnt", "rb_applied", "rb_solved", "mcs_applied", "mcs_solved", "confident_cnt")


def row_tuple(r):
    return [r.get(k) for k in KEYS]


_ALONE = {}


def alone(rx):
    if rx not in _ALONE:
        out = pipeline.run({"rxns": [rx]})
        _ALONE[rx] = (row_tuple(out["rows"][0]), out["stats"])
    return _ALONE[rx]


def compare_batch(rxns, rows, where):
    bad = []
    if rows is None or len(rows) != len(rxns):
        return [(["row-count"], "{} rows for batch {} ({})".format(None if rows is None else len(rows), rxns, where))]
    for i, (rx, row) in enumerate(zip(rxns, rows)):
        want, _ = alone(rx)
        got = row_tuple(row)
        if got != want:
            cols = [k for k, a, b in zip(KEYS, got, want) if a != b]
            bad.append((["row-depends-on-context", ",".join(cols)],
                        "row {} ({}) of batch {} differs from its alone-run in {}: {} vs {} ({})".format(
                            i, rx, rxns, cols, [a for a, b in zip(got, want) if a != b],
                            [b for a, b in zip(got, want) if a != b], where)))
    return bad


def sum_stats(stats_list):
    out = {}
    for s in stats_list:
        for k, v in s.items():
            out[k] = out.get(k, 0) + v
    return out


# ------------------------------------------------------------------------- (a)


def subbatch_case(rxns):
    n_jobs = 1
    ids = None
    if isinstance(rxns, dict):
        rxns, n_jobs, ids = rxns["rxns"], rxns.get("n_jobs", 1), rxns.get("ids")
    data = list(rxns)
    if ids == "reversed":
        # dict rows that bring their own id column whose values are not the row positions
        data = [{"reaction": r, "id": len(rxns) - 1 - i, "note": "row {}".format(i)} for i, r in enumerate(rxns)]
    elif ids == "text":
        data = [{"reaction": r, "id": "R{}".format(100 + i)} for i, r in enumerate(rxns)]
    out = pipeline.run({"rxns": data, "n_jobs": n_jobs})
    bad = compare_batch(list(rxns), out["rows"], "one batch")
    want = sum_stats([alone(r)[1] for r in rxns])
    if out["stats"] != want:
        bad.append((["stats-not-additive"], "stats of batch {} are {} but its rows alone sum to {}".format(list(rxns), out["stats"], want)))
    return [{"key": k, "what": w} for k, w in bad]


def partition_case(job):
    rxns, bs = job["rxns"], job["bs"]
    out = pipeline.run({"rxns": list(rxns), "batch_size": bs})
    bad = compare_batch(list(rxns), out["rows"], "batch_size={}".format(bs))
    parts = [rxns[i:i + bs] for i in range(0, len(rxns), bs)]
    per = [pipeline.run({"rxns": list(p)})["stats"] for p in parts]
    if out["stats"] != sum_stats(per):
        bad.append((["stats-not-sum-of-batches"], "batch_size={}: stats {} != sum of per-batch stats {}".format(bs, out["stats"], sum_stats(per))))
    return {"bad": [{"key": k, "what": w} for k, w in bad], "stats": out["stats"]}


def repeat_case(job):
    """(d) one fresh Balancer: run X, then Y, then X again; all rows equal alone-run rows"""
    x, y = job
    from synrbl import Balancer

    b = Balancer(n_jobs=1)
    bad = []
    for step, rx in enumerate((x, y, x, y + x)):
        rows = b.rebalance(list(rx), output_dict=True)
        rows = [pipeline.norm_row(r) for r in rows]
        for k, w in compare_batch(list(rx), rows, "run {} on one instance".format(step + 1)):
            bad.append({"key": ["instance-state"] + k, "what": w})
    return bad


# ------------------------------------------------------------------------- (e)

# multi-reactant reactions in which a ring is formed, opened or only partly kept: the MCS search conditions
# differ in RingMatchesRingOnly / CompleteRingsOnly, so anything remembered from one condition or one row
# and used for another shows on these first
RING_PROBES = [
    "C1=CC2C=CC1C2.CC(C)(C)OOC(=O)c1ccccc1>>CC(C)(C)OC1C2C=CC1C=C2",      # bicyclic alkene + perester -> allylic ether
    "CCOC(=O)CC(C)=O.Oc1cccc(O)c1>>CC1=CC(=O)Oc2cc(O)ccc12",              # Pechmann: ring closure onto a phenol
    "CCOC(=O)CC(=O)CC.Oc1ccccc1>>CCc1cc(=O)oc2ccccc12",                   # the same with an aromatic spelling
    "O=C1CCCCC1.NNc1ccccc1>>c1ccc2c(c1)[nH]c1CCCCc12",                    # Fischer indole: new ring fused to two old ones
    "C1CCC=CC1.CCCCO>>CCCCCCOCCCC",                                       # ring opened to a chain that competes with a chain
    "C=CC=C.C=CC(=O)OC>>COC(=O)C1CCC=CC1",                                # Diels-Alder: ring from two chains
    "OCCCCBr.OC(=O)c1ccccc1>>O=C(OCCCCO)c1ccccc1",                        # chain + ring, nothing closes
    "O=C1OC(=O)c2ccccc12.NCCc1ccccc1>>O=C1N(CCc2ccccc2)C(=O)c2ccccc12",   # anhydride -> imide, ring atom replaced
    "COC(=O)C1CCCCC1=O.Nc1ccccc1>>O=c1c2c([nH]c3ccccc13)CCCC2",           # Conrad-Limpach type closure
    "C1CO1.c1ccccc1[Mg]Br>>OCCc1ccccc1",                                  # epoxide opened by an aryl
]


def fillers(n):
    """n distinct small MCS-bound reactions (ester hydrolyses with the alcohol missing)"""
    out = []
    i = 0
    while len(out) < n:
        a, b = 1 + i % 12, 2 + i // 12
        out.append("C" * a + "C(=O)O" + "C" * b + ">>" + "C" * a + "C(=O)O")
        i += 1
    return out


def bigbatch_case(job):
    """(e) one fresh Balancer: every probe alone, then all probes inside ONE batch together with n distinct
    other reactions (before or after them), then every probe alone again.  The three rows of a probe agree."""
    from synrbl import Balancer

    probes, n, pos = job["probes"], job["n"], job["pos"]
    b = Balancer(n_jobs=1)
    b.confidence_threshold = 0

    def one(rx):
        return row_tuple(pipeline.norm_row(b.rebalance([rx], output_dict=True)[0]))

    before = [one(p) for p in probes]
    fl = fillers(n)
    batch = (probes + fl) if pos == "first" else (fl + probes)
    rows = b.rebalance(list(batch), output_dict=True)
    bad = []
    if rows is None or len(rows) != len(batch):
        return [{"key": ["row-count"], "what": "{} rows for a batch of {}".format(None if rows is None else len(rows), len(batch))}]
    off = 0 if pos == "first" else len(fl)
    inside = [row_tuple(pipeline.norm_row(r)) for r in rows[off:off + len(probes)]]
    after = [one(p) for p in probes]
    for p, x, y, z in zip(probes, before, inside, after):
        if not (x == y == z):
            cols = sorted({k for k, u, v, w in zip(KEYS, x, y, z) if not (u == v == w)})
            bad.append({"key": ["row-depends-on-context", ",".join(cols)],
                        "what": "{} alone gives {}, {} {} other reactions in one batch {}, alone afterwards {} (differing columns only)".format(
                            p, [u for k, u in zip(KEYS, x) if k in cols], "before" if pos == "first" else "after", n,
                            [u for k, u in zip(KEYS, y) if k in cols], [u for k, u in zip(KEYS, z) if k in cols])})
    # two of the other reactions against their alone-run as well
    for i in (0, len(fl) - 1):
        got = row_tuple(pipeline.norm_row(rows[(len(probes) if pos == "first" else 0) + i]))
        want = one(fl[i])
        if got != want:
            bad.append({"key": ["row-depends-on-context", "filler"], "what": "{} inside the batch of {} gives {} but alone {}".format(fl[i], len(batch), got, want)})
    return bad


# ------------------------------------------------------------------------- (b)


def _run_batch(rxns, iso="inline"):
    def f():
        # with pickled-argument isolation the Balancer is also told to use several workers
        b = pipeline.balancer() if iso == "inline" else pipeline.balancer(n_jobs=2)
        b.confidence_threshold = 0
        stats = {}
        rows = b.rebalance(list(rxns), output_dict=True, stats=stats)
        return [pipeline.norm_row(r) for r in rows], stats

    return f


def schedule_subtree(job):
    """worker: explore the subtree below one first-level order deviation"""
    rxns, root, iso, bound = job["rxns"], explore.dev_from_json(job["root"]), job["iso"], job["bound"]
    bad, outcomes = [], set()
    n_points = [0]

    def on_exec(dev, obs, ctl):
        rows, stats = obs
        n_points[0] = max(n_points[0], len(ctl.points))
        outcomes.add(json.dumps([row_tuple(r) for r in rows], sort_keys=True, default=str))
        where = "isolation={} schedule={}".format(iso, explore.dev_to_json(dev))
        for k, w in compare_batch(rxns, rows, where):
            bad.append({"key": ["schedule"] + k, "what": w, "dev": explore.dev_to_json(dev)})
        want = sum_stats([alone(r)[1] for r in rxns])
        if stats != want:
            bad.append({"key": ["schedule", "stats"], "what": "stats {} != {} ({})".format(stats, want, where), "dev": explore.dev_to_json(dev)})

    n, cap = explore.subtree(_run_batch(rxns, iso), root, ("order",), bound, on_exec=on_exec, isolation=iso)
    return {"n": n, "bad": bad, "outcomes": sorted(outcomes), "points": n_points[0]}


def schedule_roots(job):
    """worker: default execution of a batch under an isolation mode -> first-level deviations
    (also asserts that the default schedule replays identically)"""
    rxns, iso = job["rxns"], job["iso"]
    obs, ctl = explore.check_replay(_run_batch(rxns, iso), {}, ("order",), canon=lambda o: json.dumps(o, sort_keys=True, default=str), isolation=iso)
    kids = explore.children(ctl, {}, 1, explore.default_cost)
    return {"roots": [explore.dev_to_json(d) for d in kids], "points": len(ctl.points),
            "parallel_calls": ctl.parallel_calls,
            "labels": sorted({p.label.split("#")[0] for p in ctl.points})}


# ------------------------------------------------------------------------- (c)


def real_run(rxns, n_jobs, batch_size=None, threshold=0, slow=None, timeout=900):
    d = tempfile.mkdtemp(prefix="c06real_")
    try:
        spec = {"root": ROOT, "rxns": rxns, "n_jobs": n_jobs, "batch_size": batch_size, "threshold": threshold}
        if slow:
            spec["slow"] = slow
        p = os.path.join(d, "spec.json")
        with open(p, "w") as f:
            json.dump(spec, f)
        env = dict(os.environ)
        env.pop("SYNRBL_VERIF", None)
        r = subprocess.run([sys.executable, os.path.join(VERIF, "mc", "real_run.py"), p], capture_output=True, text=True,
                           timeout=timeout, env=env, cwd=d)
        if r.returncode != 0:
            return {"error": (r.stderr.strip().splitlines() or ["?"])[-1][:300]}
        return json.loads(r.stdout.strip().splitlines()[-1])
    finally:
        import shutil

        shutil.rmtree(d, ignore_errors=True)


def conformance_case(job):
    rxns, k = job["rxns"], job["n_jobs"]
    ctl_out = pipeline.run({"rxns": rxns})
    want_rows = [row_tuple(r) for r in ctl_out["rows"]]
    last = None
    for attempt in range(3):
        real = real_run(rxns, k)
        if "error" in real:
            last = (["conformance", "real-run-failed"], "real joblib run n_jobs={} failed: {}".format(k, real["error"]))
            continue
        got_rows = [row_tuple(r) for r in real["rows"]]
        if got_rows == want_rows and real["stats"] == ctl_out["stats"]:
            return {"ok": True, "attempts": attempt + 1}
        timeouty = any("timeout" in str(r.get("issue", "")).lower() for r in real["rows"])
        diff = [i for i, (a, b) in enumerate(zip(got_rows, want_rows)) if a != b]
        last = (["conformance", "real-joblib-differs"],
                "n_jobs={}: rows {} / stats {} differ from the controlled default schedule (got {} want {})".format(
                    k, diff, real["stats"], [got_rows[i] for i in diff][:2], [want_rows[i] for i in diff][:2]))
        if not timeouty:
            break  # a mismatch that is not a wall-clock timeout is persistent by construction
    return {"ok": False, "key": last[0], "what": last[1]}


# ------------------------------------------------------------------------- driver


def covering_triples():
    n = len(B06)
    out = []
    for a, b in ((1, 2), (2, 5), (3, 7), (4, 9), (5, 1), (7, 3), (11, 6), (15, 8)):
        for i in range(n):
            out.append((B06[i], B06[(i + a) % n], B06[(i + b) % n]))
    return out


def run(tier, seed):
    res = Result("model_checking")
    thorough = tier == "thorough"
    # (d) first: repeated runs on ONE fresh Balancer - [X], [Y], [X], [Y + X] - for ordered pairs of single reactions (thorough: every pair)
    # (state kept on the instance between calls shows here, as a self-contained history; the stateless
    # exploration below assumes independent executions)
    reps = [([B06[0], B06[1]], [B06[8], B06[2]]), ([B06[6]], [B06[0], B06[5]]), ([EXTRA, B06[3]], [B06[1]])]
    # an MCS-imputed fragment that the standardizer cannot convert (enolate) before one that it converts (enol)
    enolate, vinyl = "CC(=O)OCC=C[O-]>>CC(=O)O", "CC(=O)OC=C>>CC(=O)O"
    reps += [([enolate], [vinyl]), ([vinyl], [enolate]), ([enolate, vinyl], [vinyl])]
    first = B06 if thorough else [B06[1], B06[2], B06[6], B06[13], B06[0], B06[10]]   # quick: one X per way of leaving state behind
    reps += [([a], [b]) for a in first for b in B06 if a != b]
    if thorough:
        reps += [([a, c], [b]) for a in B06[:6] for b in B06[:6] for c in (B06[1], B06[4]) if len({a, b, c}) == 3]
    rd = pmap("checks.c06:repeat_case", reps, chunk=2, seed=seed, timeout=7200)
    for j, bad in zip(reps, rd):
        for b in bad:
            res.add(Violation("repeat", {"x": j[0], "y": j[1]}, None, None, b["key"], b["what"]))
    if res.violations:
        res.observations.append("state survives between calls on one Balancer: the sub-batch and schedule exploration was skipped")
        res.coverage = {"evaluations": 4 * len(reps), "distinct_nontrivial": len(reps), "states": len(reps), "transitions": 4 * len(reps),
                        "traces_validated_against_impl": 0, "samples": [{"x": reps[3][0], "y": reps[3][1]}],
                        "rule": "histories [X], [Y], [X], [Y+X] on one fresh Balancer for every ordered pair of single reactions; the rest was skipped because state leaks between calls",
                        "exhaustive": False}
        return res
    # (e) large batches: the ring probes with n other distinct reactions in one batch, n on a ladder around the
    # usual sizes of bounded caches (64, 128, 256)
    ladder = (72, 136, 264) if thorough else (72,)
    bj = [{"probes": RING_PROBES[i:i + 2], "n": n, "pos": pos} for n in ladder for pos in (("first", "last") if thorough else ("first",))
          for i in range(0, len(RING_PROBES), 2)]
    rb = pmap("checks.c06:bigbatch_case", bj, chunk=1, seed=seed, timeout=7200)
    for j, bad in zip(bj, rb):
        for b in bad:
            res.add(Violation("big-batch", j, None, None, b["key"], b["what"]))
    # (a)
    subs = [tuple(p) for k in (1, 2) for p in itertools.permutations(B06, k)]
    subs += [tuple(p) for p in itertools.permutations(B06, 3)] if thorough else covering_triples()
    # the same reaction more than once in a batch
    n6 = len(B06)
    subs += [(x, x) for x in B06]
    for i, x in enumerate(B06):
        for y in ((B06[(i + 1) % n6],) if not thorough else [b for b in B06 if b != x]):
            subs += [(x, x, y), (x, y, x), (y, x, x)]
    ra = pmap("checks.c06:subbatch_case", subs, chunk=4, seed=seed, timeout=7200)
    for s, bad in zip(subs, ra):
        for b in bad:
            res.add(Violation("sub-batch", {"rxns": list(s)}, None, None, b["key"], b["what"]))
    # the same triples (and quadruples of MCS-bound reactions) with Balancers that are told to use 2 and 3
    # workers (the controlled seam still runs the tasks inline: only code that branches on n_jobs differs)
    mcs_bound = [B06[0], B06[8], B06[5], B06[10], EXTRA]
    wsubs = [list(t) for t in (subs if thorough else covering_triples()) if len(t) == 3]
    wsubs += [list(p) for p in itertools.permutations(mcs_bound, 3)]
    wsubs += [list(p) for k in (4, 5) for p in itertools.permutations(mcs_bound, k)][:: (1 if thorough else 7)]
    wjobs = [{"rxns": t, "n_jobs": nj} for t in wsubs for nj in (2, 3)]
    wjobs += [{"rxns": list(t), "ids": kind} for t in subs if len(t) == 2 for kind in ("reversed", "text")][:: (1 if thorough else 3)]
    rw = pmap("checks.c06:subbatch_case", wjobs, chunk=4, seed=seed, timeout=7200)
    for j, bad in zip(wjobs, rw):
        for b in bad:
            res.add(Violation("sub-batch", j, None, None, ["n_jobs"] + b["key"], b["what"] + " [n_jobs={} ids={}]".format(j.get("n_jobs", 1), j.get("ids"))))
    full = B06 + [EXTRA]
    pj = [{"rxns": full, "bs": bs} for bs in range(1, len(full) + 1)]
    if thorough:
        pj += [{"rxns": full[::-1], "bs": bs} for bs in range(1, len(full) + 1)]
    rp = pmap("checks.c06:partition_case", pj, chunk=1, seed=seed, timeout=7200)
    stats_seen = {}
    for j, x in zip(pj, rp):
        for b in x["bad"]:
            res.add(Violation("partition", j, None, None, b["key"], b["what"]))
        stats_seen.setdefault(json.dumps(sorted(j["rxns"])), set()).add(json.dumps(x["stats"], sort_keys=True))
    for k, v in stats_seen.items():
        if len(v) > 1:
            res.add(Violation("partition", {"rxns": json.loads(k), "bs": "all"}, sorted(v), None,
                              ["stats-depend-on-partition"], "statistics differ between partitions: {}".format(sorted(v))))
    # (b)
    isos = ("inline", "task", "chunk") if thorough else ("inline", "task")
    bound = 2 if thorough else 1
    root_jobs = [{"rxns": b, "iso": iso} for b in SCHED_BATCHES for iso in isos]
    roots = pmap("checks.c06:schedule_roots", root_jobs, chunk=1, seed=seed, timeout=7200)
    sub_jobs = []
    for j, r in zip(root_jobs, roots):
        sub_jobs.append({"rxns": j["rxns"], "iso": j["iso"], "root": [], "bound": 0})
        # two deviations: every batch inline, the first batch also with per-task copies; one deviation elsewhere
        # (the full 3 x 3 product at two deviations is 95 000 executions = 45 CPU-minutes x 16 and showed one outcome per batch)
        b2 = bound if (j["iso"] == "inline" or (j["iso"] == "task" and j["rxns"] == SCHED_BATCHES[0])) else 1
        for d in r["roots"]:
            sub_jobs.append({"rxns": j["rxns"], "iso": j["iso"], "root": d, "bound": b2})
    rs = pmap("checks.c06:schedule_subtree", sub_jobs, chunk=2 if not thorough else 1, seed=seed, timeout=14400)
    n_exec = 0
    outcomes = set()
    for j, x in zip(sub_jobs, rs):
        n_exec += x["n"]
        outcomes.update(x["outcomes"])
        for b in x["bad"]:
            res.add(Violation("schedule", {"rxns": j["rxns"], "iso": j["iso"], "deviations": b["dev"]}, None, None, b["key"], b["what"]))
    # (c)
    conf_batch = B06[:4] + [B06[5], B06[8], B06[9], EXTRA]
    ks = (1, 2, 4, 16) if thorough else (1, 2)
    rc = pmap("checks.c06:conformance_case", [{"rxns": conf_batch, "n_jobs": k} for k in ks], chunk=1, seed=seed, timeout=7200)
    validated = 0
    for k, x in zip(ks, rc):
        if x["ok"]:
            validated += 1
        else:
            res.add(Violation("conformance", {"rxns": conf_batch, "n_jobs": k}, None, None, x["key"], x["what"]))
    res.coverage = {
        "states": len(outcomes) + len(subs),
        "transitions": n_exec + len(subs) + len(pj) + 4 * len(reps) + 5 * len(bj),
        "traces_validated_against_impl": validated,
        "samples": [{"sub_batch": list(subs[150])}, {"schedule": sub_jobs[3]}, {"choice_point_sites": roots[0]["labels"]}],
        "executions": n_exec,
        "deviation_bound": bound,
        "isolations": list(isos),
        "choice_points_per_run": roots[0]["points"],
        "parallel_calls_per_run": roots[0]["parallel_calls"],
        "distinct_outcomes": len(outcomes),
        "sub_batches": len(subs) + len(wjobs),
        "big_batches": len(bj),
        "big_batch_sizes": [len(RING_PROBES[:2]) + n for n in ladder],
        "partitions": len(pj),
        "real_joblib_worker_counts": list(ks),
        "evaluations": n_exec + len(subs) + len(pj) + len(reps) + len(bj),
        "distinct_nontrivial": len(subs) + n_exec,
        "rule": "(a) every ordered sub-batch of size 1..2{}, batches that repeat a reaction (x,x / x,x,y / x,y,x / y,x,x) (triples and 3..5-tuples of MCS-bound reactions also with n_jobs 2 and 3) of the 18-reaction base set, the 19-reaction set under every "
                "batch size; (b) for 3 batches of 3 rows every Parallel call x every non-default task order "
                "(all 3! orders) with <= {} order deviation(s) x isolation {} (two deviations: inline for every batch and per-task copies for the first batch; one deviation otherwise); (c) real joblib with n_jobs in {}; "
                "(d) repeated runs on one instance; (e) {} ring-forming/-opening multi-reactant probes, two at a time, alone / inside one batch with n other distinct reactions (n in {}) / alone again on one fresh Balancer.  distinct_outcomes = distinct row tables seen over all schedules "
                "(1 per batch and isolation means no schedule changed anything).".format(
                    " and every triple" if thorough else " and 128 triples of a cyclic covering design", bound, list(isos), list(ks), len(RING_PROBES), list(ladder)),
        "exhaustive": True,
    }
    res.assumptions = [
        "joblib is modelled by ControlledParallel: results in submission order, tasks executed in a chosen order, "
        "inline (n_jobs=1 semantics) or on pickled copies of their arguments (process workers); bound to the real "
        "joblib by the conformance runs",
        "real wall-clock timeouts are excluded from (a),(b),(d): the thread-pool seam always completes",
    ]
    return res


def replay(v):
    c = v.case
    if v.sub == "sub-batch":
        pre = ["n_jobs"] if ("n_jobs" in c or "ids" in c) else []
        return [Violation(v.sub, c, None, None, pre + b["key"], b["what"]) for b in subbatch_case(c if pre else c["rxns"]) if pre + b["key"] == v.key]
    if v.sub == "partition":
        if c["bs"] == "all":
            seen = {json.dumps(partition_case({"rxns": c["rxns"], "bs": bs})["stats"], sort_keys=True) for bs in range(1, len(c["rxns"]) + 1)}
            return [Violation(v.sub, c, sorted(seen), None, v.key, "stats differ between partitions")] if len(seen) > 1 else []
        return [Violation(v.sub, c, None, None, b["key"], b["what"]) for b in partition_case(c)["bad"] if b["key"] == v.key]
    if v.sub == "repeat":
        return [Violation(v.sub, c, None, None, b["key"], b["what"]) for b in repeat_case((c["x"], c["y"])) if b["key"] == v.key]
    if v.sub == "schedule":
        dev = explore.dev_from_json(c["deviations"])
        canon = lambda o: json.dumps(o, sort_keys=True, default=str)  # noqa: E731
        obs, ctl = explore.check_replay(_run_batch(c["rxns"], c["iso"]), dev, ("order",), canon=canon, isolation=c["iso"])
        rows, stats = obs
        out = []
        for k, w in compare_batch(c["rxns"], rows, "replay"):
            if ["schedule"] + k == v.key:
                out.append(Violation(v.sub, c, None, None, v.key, w))
        if v.key == ["schedule", "stats"] and stats != sum_stats([alone(r)[1] for r in c["rxns"]]):
            out.append(Violation(v.sub, c, stats, None, v.key, "stats differ"))
        return out
    if v.sub == "big-batch":
        return [Violation(v.sub, c, None, None, b["key"], b["what"]) for b in bigbatch_case(c) if b["key"] == v.key]
    if v.sub == "conformance":
        x = conformance_case(c)
        return [] if x["ok"] else [Violation(v.sub, c, None, None, x["key"], x["what"])]
    return []
