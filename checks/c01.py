"""C01 — a reaction reported as solved is balanced in every element and in charge.

E1: every reaction of the stated finite universes goes through the real
Balancer.rebalance (controlled seams, n_jobs=1 semantics); every solved row is compared
with the independent composition model."""

from checks import pipefam as pf
from mc.report import Result

PROPERTY = "C01"


def universes(tier):
    us = []
    quick = pf.dedupe(pf.rxn_universe(pf.A01[:8], 2))
    special = pf.dedupe(pf.HAND + pf.SPECIAL)
    large = pf.dedupe(pf.LARGE)
    if tier == "quick":
        us.append(("Rxn(A01[:8],2)", quick, {"threshold": 0}, 22))
        us.append(("hand+special t=0", special, {"threshold": 0}, 6))
        us.append(("size ladder", large, {"threshold": 0}, 3))
        us.append(("residual imbalance single rows", pf.dedupe(pf.RESIDUAL), {"threshold": 0}, 1))
        us.append(("hand+special t=0.5 bs=3", special, {"threshold": 0.5, "batch_size": 3}, 7))
        us.append(("hand+special t=1 bs=1", special, {"threshold": 1, "batch_size": 1}, 5))
    else:
        full = pf.dedupe(pf.rxn_universe(pf.A01, 2))
        us.append(("Rxn(A01,2)", full, {"threshold": 0}, 40))
        us.append(("size ladder", large, {"threshold": 0}, 3))
        us.append(("size ladder bs=1", large, {"threshold": 0, "batch_size": 1}, 3))
        for t in (0, 0.5, 1):
            for bs in (None, 1, 3):
                us.append(("hand+special t={} bs={}".format(t, bs), special,
                           {"threshold": t, "batch_size": bs}, 6))
        us.append(("Rxn(A01[:8],2) t=0.5 bs=3", quick, {"threshold": 0.5, "batch_size": 3}, 22))
        corpus = [r for r in pf.corpus_reactions("reaction") if pf.in_domain(r)]
        us.append(("validation corpus", corpus, {"threshold": 0}, 25))
    us += pf.ids_universes()
    return us


FAULT_BATCHES = [["CCO>>CC=O", "CCO.O>>CC(=O)O", "CC(=O)C>>CC(O)C"],
                 ["CC(=O)OCC>>CC(=O)O", "CCCO.O>>CCC(=O)O", "OCc1ccccc1>>O=Cc1ccccc1", "CC(=O)O.CCO>>CC(=O)OCC.O"]]


def fault_job(rxns):
    """every single failing joblib.Parallel call of one run (a worker process died): whatever
    rows the run still returns, the solved ones must be balanced"""
    import json

    from mc import explore, oracle, pipeline

    def f():
        b = pipeline.balancer()
        b.confidence_threshold = 0
        b.remove_aam = True
        import contextlib
        import io

        sink = io.StringIO()
        with contextlib.redirect_stderr(sink), contextlib.redirect_stdout(sink):
            rows = b.rebalance(list(rxns), output_dict=True)
        return [pipeline.norm_row(r) for r in rows]

    bad = []
    n = [0]
    returned = [0]

    def on_exec(dev, rows, ctl):
        n[0] += 1
        returned[0] += len(rows)
        for i, row in enumerate(rows):
            if row.get("solved") and not oracle.balanced(row.get("reaction") or ""):
                bad.append({"key": ["fault", "solved-unbalanced", row.get("solved_by")],
                            "what": "with the Parallel call {} failing, the run returns a solved row that is unbalanced: {}".format(
                                explore.dev_to_json(dev), row.get("reaction")), "dev": explore.dev_to_json(dev)})

    explore.subtree(f, {}, ("pfail",), 1, on_exec=on_exec)
    return {"n": n[0], "rows": returned[0], "bad": bad[:6]}


HISTORY_BATCHES = FAULT_BATCHES + [["CCCO.O>>CCC(=O)O", "CCO>>CC=O"], ["CC(C)CO>>CC(C)C(=O)O.O", "CC(=O)C>>CC(O)C", "CCCCO.O>>CCCC(=O)O"],
                                   ["OCc1ccccc1>>OC(=O)c1ccccc1", "CC>>CCC", "O=Cc1ccccc1>>OC(=O)c1ccccc1"]]


def history_job(rxns):
    """several calls on ONE fresh Balancer - the batch, the batch again, its reversal, row by row (batch_size 1), and the
    batch doubled: every row that any of the calls returns solved must be balanced (nothing learnt in an earlier call
    or batch may short-cut the validation of a later one)"""
    from synrbl import Balancer

    from mc import oracle, pipeline

    b = Balancer(n_jobs=1)
    bad, n = [], 0
    calls = [(list(rxns), None), (list(rxns), None), (list(reversed(rxns)), None), (list(rxns), 1), (list(rxns) + list(rxns), 2)]
    for k, (batch, bs) in enumerate(calls):
        out = pipeline._run_on(b, {"rxns": batch, "batch_size": bs})
        for i, row in enumerate(out["rows"] or []):
            n += 1
            if row.get("solved") and not oracle.balanced(row.get("reaction") or ""):
                bad.append({"key": ["history", "solved-unbalanced", row.get("solved_by")], "call": k,
                            "what": "call {} (batch_size {}) on one Balancer returns row {} ({}) solved by {} but unbalanced: {}".format(
                                k + 1, bs, i, batch[i], row.get("solved_by"), row.get("reaction"))})
    return {"n": n, "bad": bad[:4]}


def run(tier, seed):
    us = universes(tier)
    res = pf.drive(PROPERTY, us, seed)
    from mc.pool import pmap
    from mc.report import Violation

    rh = pmap("checks.c01:history_job", HISTORY_BATCHES, chunk=1, seed=seed, timeout=7200)
    for b, x in zip(HISTORY_BATCHES, rh):
        res.coverage["evaluations"] += x["n"]
        for v in x["bad"]:
            res.add(Violation("call-history", {"rxns": b}, None, None, v["key"], v["what"]))
    res.coverage["call_histories"] = len(HISTORY_BATCHES)

    from mc.boot import HarnessError

    try:
        rf = pmap("checks.c01:fault_job", FAULT_BATCHES, chunk=1, seed=seed, timeout=7200)
    except HarnessError as e:
        # code that keeps state on the Balancer between runs shows different choice points in repeated executions;
        # that is reported through the localised histories above - without them it is a harness problem
        if not res.violations:
            raise
        res.observations.append("fault sub-check skipped, executions are not independent: {}".format(str(e).splitlines()[0][:200]))
        rf = []
    for b, x in zip(FAULT_BATCHES, rf):
        res.coverage["evaluations"] += x["rows"]
        for v in x["bad"]:
            res.add(Violation("fault", {"rxns": b, "deviations": v["dev"]}, None, None, v["key"], v["what"]))
    res.coverage["single_parallel_call_failures"] = sum(x["n"] for x in rf)
    res.coverage["rule"] = (
        "every reaction L>>R with L,R multisets of size 1..2 over the molecule alphabet A01 "
        "(one molecule per pipeline shortcut), a hand-built list for seams needing larger "
        "molecules, a heavy/ionic/isotopic/stereo/mapped family, thresholds {0,0.5,1} and batch "
        "sizes {None,1,3}; thorough adds the full 14-molecule alphabet and the complete "
        "validation corpus; additionally every single failing joblib.Parallel call of two template-bearing batches (solved rows that are still returned must be balanced), and five template-bearing batches through several calls on one fresh Balancer (again, reversed, row by row, doubled).  Non-trivial = distinct (stage, input) pairs of rows returned solved."
    )
    res.coverage["samples"] = [us[0][1][1], us[0][1][len(us[0][1]) // 2], us[1][1][0], us[1][1][-1]]
    res.assumptions = ["RDKit parser/valence model is the composition reference",
                       "worker count is modelled by the controlled joblib seam (inline tasks); real pools are covered by C06's conformance runs"]
    return res


def replay(v):
    if v.sub == "call-history":
        x = history_job(v.case["rxns"])
        from mc.report import Violation

        return [Violation("call-history", v.case, None, None, b["key"], b["what"]) for b in x["bad"] if b["key"] == v.key][:1]
    if v.sub == "fault":
        x = fault_job(v.case["rxns"])
        from mc.report import Violation

        return [Violation("fault", v.case, None, None, b["key"], b["what"]) for b in x["bad"] if b["key"] == v.key and b["dev"] == v.case["deviations"]][:1]
    return pf.replay_rows(v, PROPERTY)
