"""C17 — benchmark comparison ignores molecule order and SMILES spelling.

E1: all reactions Rxn(A17, 2) over an 18-molecule alphabet with anagram isomer pairs, aromatic/saturated pairs,
aromatic/kekule pairs and ions (thorough: also every reaction with a 3-molecule side against
every side of <= 2 molecules, and every 3-molecule side against itself); for each reaction all distinct permutations of the
molecules of each side and the finite spelling family universe.spell (rooted at every atom,
kekule, explicit-H, three atom-map numberings - normalize_smiles is documented by the pinned
tests to remove maps).  Oracle:

    normalize(normalize(x)) == normalize(x)
    normalize(variant)      == normalize(x)
    wc_similarity(x, variant, method) == 1          for pathway, ecfp, ecfp_inv
    sim(a, b) == sim(b, a) and 0 <= sim(a, b) <= 1  over all ordered pairs of a fixed
                                                    60-reaction slice

Stereo-free inputs only.
"""

import itertools

from mc import oracle, universe
from mc.pool import pmap
from mc.report import Result, Violation

PROPERTY = "C17"

A17 = [
    "CCCO", "CCOC",                 # anagram isomers
    "CCN", "CNC",
    "CC(C)O",                       # isomer of CCCO with a different spelling length
    "C=CO", "CC=O",
    "c1ccccc1", "c1ccncc1", "O=[N+]([O-])c1ccccc1",   # aromatic / kekule pairs via spell()
    "[Na+]", "[Cl-]", "CC(=O)[O-]",                   # ions as separate molecules
    "C1CCCCC1", "C1CCNCC1",         # saturated counterparts: differ from the aromatic ring only in letter case
    "c1ccsc1", "CCCCC", "CCCCO",    # aromatic sulfur (kekule form counts one letter more) next to 5-atom competitors
]
METHODS = ["pathway", "ecfp", "ecfp_inv"]

# fixed complete slice for symmetry / range: every left multiset (size <= 2) over five
# molecules x three right sides
SYM_LEFT = ["CCCO", "CCOC", "c1ccccc1", "CC(=O)[O-]", "[Na+]"]
SYM_RIGHT = ["CC=O", "CC=O.[Cl-]", "CCN.CNC"]

_FAM = {}


# notations that RDKit's clean-up step rewrites to the charge-separated form (the same molecule after parsing)
FIVE_VALENT = {"O=[N+]([O-])c1ccccc1": ["O=N(=O)c1ccccc1", "c1ccccc1N(=O)=O"]}


def family(mol):
    """[(spelling, kind)] of one alphabet molecule, canonical spelling first"""
    if mol not in _FAM:
        out, seen = [], set()
        for kind, ss in (
            ("rooted", universe.rooted_spellings(mol)),
            ("five-valent", [x for x in FIVE_VALENT.get(mol, []) if oracle.canon(x) == oracle.canon(mol)]),
            ("kekule", [universe.kekule_spelling(mol)]),
            ("explicit-h", [universe.explicit_h_spelling(mol)]),
            ("mapped", universe.mapped_spellings(mol)),
        ):
            for s in ss:
                if s not in seen:
                    seen.add(s)
                    out.append((s, kind))
        _FAM[mol] = out
    return _FAM[mol]


def _perms(side):
    return sorted(set(itertools.permutations(side)))


def _rx(left, right):
    return ".".join(left) + ">>" + ".".join(right)


def variants(x, mode):
    """[(variant string, description)] of reaction x, deduplicated, x itself first.

    Profile k writes every molecule in its k-th spelling (mod family size).
    mode 'cross': every permutation of each side  x  {canonical spelling, every profile k}.
    mode 'perm+rev' / 'lite': every permutation in canonical spelling; every profile k with
                 both sides in reversed order (order and spelling vary together).
    """
    left, right = [t.split(".") for t in x.split(">>")]
    kmax = max(len(family(m)) for m in left + right)
    out, seen = [], set()

    def add(v, d):
        if v not in seen:
            seen.add(v)
            out.append((v, d))

    def spelled(side, k):
        return [family(m)[k % len(family(m))][0] for m in side]

    add(x, {"perm": "identity", "profile": 0})
    pl, pr = _perms(left), _perms(right)
    for a in pl:
        for b in pr:
            add(_rx(a, b), {"perm": [list(a), list(b)], "profile": 0})
    if mode == "cross":
        for a in pl:
            for b in pr:
                for k in range(1, kmax):
                    add(_rx(spelled(a, k), spelled(b, k)),
                        {"perm": [list(a), list(b)], "profile": k})
    else:
        a, b = left[::-1], right[::-1]
        for k in range(1, kmax):
            add(_rx(spelled(a, k), spelled(b, k)), {"perm": [a, b], "profile": k})
    return out


# --------------------------------------------------------------------------- oracle


def _ordsum(t):
    return sum(ord(c) for c in t)


def classify(x, v, nx, nv):
    """root cause of normalize(v) != normalize(x)"""
    sx = [sorted(t.split(".")) for t in nx.split(">>")]
    sv = [sorted(t.split(".")) for t in nv.split(">>")]
    if sx == sv:
        tie = True
        for a, b in zip(nx.split(">>"), nv.split(">>")):
            for ta, tb in zip(a.split("."), b.split(".")):
                if ta != tb and _ordsum(ta) != _ordsum(tb):
                    tie = False
        return ["order-dependence", "sort-tie" if tie else "other"]
    # some molecule is normalised to a different string: find the spelling kind
    from synrbl.SynUtils.chem_utils import normalize_smiles

    kinds = set()
    for side in v.split(">>"):
        for tok in side.split("."):
            c = oracle.canon(tok)
            if c is None:
                kinds.add("unparsable-variant")
                continue
            if normalize_smiles(tok) != normalize_smiles(c):
                kind = "other"
                for s, k in family(c) if c in A17 else []:
                    if s == tok:
                        kind = k
                kinds.add(kind)
    return ["spelling-dependence"] + (sorted(kinds) or ["interaction"])


def judge(x, v, methods=METHODS, nx=None):
    """All failures of the pair (reaction, variant): list of dicts.  `nx` = normalize(x)
    when the caller has already computed it and checked its idempotence."""
    from synrbl.SynUtils.chem_utils import normalize_smiles, wc_similarity

    fails = []
    todo = []
    if nx is None:
        nx = normalize_smiles(x)
        todo.append(nx)
    nv = normalize_smiles(v)
    if nv != nx:
        todo.append(nv)
    for n in todo:
        nn = normalize_smiles(n)
        if nn != n:
            fails.append({"sub": "idempotence", "key": ["not-idempotent"], "x": x, "v": v,
                          "observed": {"once": n, "twice": nn}, "expected": "equal"})
    key = None
    if nv != nx:
        key = classify(x, v, nx, nv)
        fails.append({"sub": "normal-form", "key": key, "x": x, "v": v,
                      "observed": {"normalize(x)": nx, "normalize(variant)": nv},
                      "expected": "equal strings"})
    for m in methods:
        try:
            sim = wc_similarity(x, v, m)
            ok = sim == 1
            obs = float(sim)
        except Exception as e:  # noqa: BLE001
            ok, obs = False, "{}: {}".format(type(e).__name__, str(e)[:120])
        if not ok:
            fails.append({"sub": "similarity",
                          "key": key if key is not None else ["similarity-not-1", m],
                          "x": x, "v": v, "method": m,
                          "observed": {"similarity": obs, "method": m}, "expected": 1})
    return fails


class _Acc:
    def __init__(self):
        self.evaluations = 0
        self.nontrivial = 0
        self.groups = {}

    def fail(self, f):
        k = repr((f["sub"], f["key"]))
        g = self.groups.setdefault(k, {"sub": f["sub"], "key": f["key"], "count": 0,
                                       "examples": []})
        g["count"] += 1
        g["examples"].append(f)
        g["examples"].sort(key=lambda e: (len(e["x"]), len(e["v"]), e["x"], e["v"],
                                          e.get("method", "")))
        del g["examples"][3:]

    def result(self):
        return {"evaluations": self.evaluations, "nontrivial": self.nontrivial,
                "groups": [self.groups[k] for k in sorted(self.groups)]}


def reaction_item(item):
    x, mode = item
    acc = _Acc()
    vs = variants(x, mode)
    perm_idx = [i for i, (_, d) in enumerate(vs) if d["profile"] == 0]
    # lite: all three methods on the reaction itself, the first and last other permutation
    # and the last spelling profile; 'pathway' on the rest
    all_methods = set(perm_idx[:2] + perm_idx[-1:] + [len(vs) - 1])
    from synrbl.SynUtils.chem_utils import normalize_smiles

    nx = None
    for i, (v, d) in enumerate(vs):
        methods = METHODS if mode != "lite" or i in all_methods else METHODS[:1]
        acc.evaluations += 1
        if v != x:
            acc.nontrivial += 1
        # the first variant is x itself: normalize(x) and its idempotence are judged there
        for f in judge(x, v, methods, nx=nx):
            acc.fail(f)
        if nx is None:
            nx = normalize_smiles(x)
    return acc.result()


def molecule_item(mol):
    """every spelling of one alphabet molecule normalises to the same string"""
    acc = _Acc()
    for s, kind in family(mol):
        acc.evaluations += 1
        if s != mol:
            acc.nontrivial += 1
        for f in judge(mol + ">>" + mol, s + ">>" + s):
            acc.fail(f)
    return acc.result()


def history_item(pair):
    """sides with the same molecules in different multiplicities normalised one after the
    other in one process; afterwards every spelling variant of the plain two-molecule side
    must still normalise like the side itself and keep its molecules"""
    from synrbl.SynUtils.chem_utils import normalize_smiles

    a, b = pair
    fails = []
    rhs = ">>CC=O"
    seq = [a + "." + a + "." + b + rhs, a + "." + b + "." + b + rhs, a + "." + b + rhs, b + "." + a + rhs,
           a + "." + a + rhs, a + rhs]
    for x in seq:
        nx = normalize_smiles(x)
        if oracle.mols(nx.split(">>")[0], stereo=False) != oracle.mols(x.split(">>")[0], stereo=False):
            fails.append({"x": x, "v": nx, "key": ["history", "molecules-changed"],
                          "observed": {"normalize(x)": nx}, "expected": "the molecules of x"})
        for sp in universe.rooted_spellings(a)[1:3] + universe.rooted_spellings(b)[1:2]:
            v = x.replace(a, sp, 1) if sp in universe.rooted_spellings(a) else x.replace(b, sp, 1)
            if v != x and normalize_smiles(v) != nx:
                fails.append({"x": x, "v": v, "key": ["history", "variant-differs"],
                              "observed": {"normalize(x)": nx, "normalize(variant)": normalize_smiles(v)},
                              "expected": "equal normal forms"})
    return {"n": len(seq), "fails": fails[:4]}


def benchmark_item(job):
    """`python -m synrbl benchmark` (argparse entry, in process): a result table whose
    rebalanced reaction is an order / spelling variant of the expected reaction must be
    counted correct in every row, for the given similarity method"""
    import contextlib
    import csv
    import io
    import json as _json
    import os
    import shutil
    import tempfile

    method, rxns = job[0], job[1]
    gap = job[2] if len(job) > 2 else None   # (start, step): rows start, start+step, ... have no expected reaction
    rows = []
    for x in rxns:
        for v, _ in variants(x, "perm+rev"):
            rows.append((x, v))
    d = tempfile.mkdtemp(prefix="c17bench_", dir="/dev/shm" if os.path.isdir("/dev/shm") else None)
    try:
        src = os.path.join(d, "result.csv")
        with open(src, "w", newline="") as f:
            w = csv.writer(f)
            w.writerow(["reaction", "expected_reaction", "solved", "solved_by", "confidence"])
            is_gap = lambda i: gap is not None and i % gap[1] == gap[0]  # noqa: E731
            for i, (x, v) in enumerate(rows):
                w.writerow([v, "" if is_gap(i) else x, True, "rule-based" if i % 2 else "mcs-based", 1.0])
        n_expected = sum(1 for i in range(len(rows)) if not is_gap(i))
        n_rb = sum(1 for i in range(len(rows)) if i % 2)
        n_mcs = len(rows) - n_rb
        with open(src + ".stats", "w") as f:
            _json.dump({"reaction_cnt": len(rows), "balanced_cnt": 0, "rb_applied": n_rb, "rb_solved": n_rb,
                        "mcs_applied": n_mcs, "mcs_solved": n_mcs, "confident_cnt": n_mcs}, f)
        out = os.path.join(d, "bench.json")
        import synrbl.SynCmd as cmd

        sink = io.StringIO()
        try:
            with contextlib.redirect_stderr(sink), contextlib.redirect_stdout(sink):
                args = cmd.setup_argparser().parse_args(["benchmark", src, "-o", out, "--similarity-method", method])
                args.func(args)
        except (Exception, SystemExit) as e:
            return {"n": len(rows), "fails": [{"key": ["benchmark", "raises"], "what": "benchmark raised {}: {}".format(type(e).__name__, str(e)[:120])}]}
        with open(out) as f:
            res = _json.load(f)
        fails = []
        if res.get("total_correct") != n_expected:
            fails.append({"key": ["benchmark", "variant-not-counted-correct", method],
                          "what": "benchmark --similarity-method {} counts {} of {} rows correct although every rebalanced reaction is an order/spelling variant of its expected reaction (rows without an expected reaction: {})".format(
                              method, res.get("total_correct"), n_expected, gap)})
        return {"n": len(rows), "fails": fails}
    finally:
        shutil.rmtree(d, ignore_errors=True)


def sym_reactions():
    lefts = list(universe.multisets(SYM_LEFT, 2))
    return [".".join(l) + ">>" + r for l in lefts for r in SYM_RIGHT]


def judge_pair(a, b):
    from synrbl.SynUtils.chem_utils import wc_similarity

    fails = []
    for m in METHODS:
        vals = []
        for p, q in ((a, b), (b, a)):
            try:
                vals.append(float(wc_similarity(p, q, m)))
            except Exception as e:  # noqa: BLE001
                vals.append("{}: {}".format(type(e).__name__, str(e)[:120]))
        obs = {"sim(a,b)": vals[0], "sim(b,a)": vals[1], "method": m}
        if any(isinstance(v, str) for v in vals):
            exc = [v for v in vals if isinstance(v, str)][0].split(":")[0]
            fails.append({"sub": "symmetry", "key": ["similarity-raises", m, exc], "x": a,
                          "v": b, "method": m, "observed": obs, "expected": "a number"})
            continue
        if not all(0 <= v <= 1 for v in vals):
            fails.append({"sub": "symmetry", "key": ["similarity-range", m], "x": a, "v": b,
                          "method": m, "observed": obs, "expected": "0 <= sim <= 1"})
        if vals[0] != vals[1]:
            fails.append({"sub": "symmetry", "key": ["similarity-asymmetric", m], "x": a,
                          "v": b, "method": m, "observed": obs, "expected": "equal"})
    return fails


def sym_item(i):
    rs = sym_reactions()
    a = rs[i]
    acc = _Acc()
    for b in rs:
        acc.evaluations += 1
        if a != b:
            acc.nontrivial += 1
        for f in judge_pair(a, b):
            acc.fail(f)
    return acc.result()


# --------------------------------------------------------------------------- driver


def run(tier, seed):
    res = Result("exploration")
    for m in A17:
        assert oracle.canon(m) == m, m
    parts = {}
    r_mol = pmap("checks.c17:molecule_item", A17, chunk=1, seed=seed)
    parts["molecule-spellings"] = r_mol
    rx2 = universe.Rxn(A17, 2)
    items = [(x, "cross" if tier == "thorough" else "perm+rev") for x in rx2]
    n3 = n3b = 0
    if tier == "thorough":
        # sides of three molecules: against every side of <= 2 (both directions), and every
        # 3-molecule side against itself with the full cross of permutations and profiles
        small = list(universe.multisets(A17, 2))
        big = [m for m in universe.multisets(A17, 3) if len(m) == 3]
        rx3 = [".".join(b) + ">>" + ".".join(a) for b in big for a in small]
        rx3 += [".".join(a) + ">>" + ".".join(b) for b in big for a in small]
        n3 = len(rx3)
        items += [(x, "lite") for x in rx3]
        items += [(".".join(b) + ">>" + ".".join(b), "cross") for b in big]
        n3b = len(big)
    parts["reactions"] = pmap("checks.c17:reaction_item", items, chunk=40, seed=seed)
    n_sym = len(sym_reactions())
    parts["symmetry"] = pmap("checks.c17:sym_item", list(range(n_sym)), chunk=1, seed=seed)

    groups = {}
    counts = {}
    for name in sorted(parts):
        ev = nt = 0
        for r in parts[name]:
            ev += r["evaluations"]
            nt += r["nontrivial"]
            for g in r["groups"]:
                k = repr((g["sub"], g["key"]))
                t = groups.setdefault(k, {"sub": g["sub"], "key": g["key"], "count": 0,
                                          "examples": []})
                t["count"] += g["count"]
                t["examples"].extend(g["examples"])
        counts[name] = {"evaluations": ev, "nontrivial": nt}
    by_key = {}
    for k in sorted(groups):
        g = groups[k]
        g["examples"].sort(key=lambda e: (len(e["x"]), len(e["v"]), e["x"], e["v"],
                                          e.get("method", "")))
        by_key[k] = g["count"]
        for e in g["examples"][:2]:
            case = {"x": e["x"], "variant": e["v"]}
            if g["sub"] == "symmetry":
                case = {"a": e["x"], "b": e["v"]}
            res.add(Violation(g["sub"], case, e["observed"], e["expected"], g["key"],
                              "{} vs {}: {} ({} failing case(s) in this group)".format(
                                  e["x"], e["v"], e["observed"], g["count"])))
    import itertools as _it

    hpairs = [(a, b) for a, b in _it.permutations(A17[:9], 2)]
    rh = pmap("checks.c17:history_item", hpairs, chunk=6, seed=seed)
    for p, r in zip(hpairs, rh):
        for f in r["fails"][:1]:
            res.add(Violation("history", {"pair": list(p)}, f["observed"], f["expected"], f["key"],
                              "after normalising sides with {} and {} in other multiplicities: {} vs {}: {}".format(
                                  p[0], p[1], f["x"], f["v"], f["observed"])))
    counts["histories"] = {"evaluations": sum(r["n"] for r in rh), "nontrivial": len(hpairs)}
    brx = rx2[:: max(1, len(rx2) // (400 if tier == "thorough" else 120))]
    gaps = [None, (0, 3), (1, 5), (2, 4)]   # rows without an expected reaction (the command skips them)
    bjobs = [(m, brx[i::4], gaps[i]) for m in METHODS for i in range(4)]
    rb = pmap("checks.c17:benchmark_item", bjobs, chunk=1, seed=seed)
    for j, r in zip(bjobs, rb):
        for f in r["fails"][:1]:
            res.add(Violation("benchmark", {"method": j[0], "rxns": j[1], "gap": j[2]}, None, None, f["key"], f["what"]))
    counts["benchmark-cli"] = {"evaluations": sum(r["n"] for r in rb), "nontrivial": len(bjobs)}
    res.coverage = {
        "evaluations": sum(c["evaluations"] for c in counts.values()),
        "distinct_nontrivial": counts["reactions"]["nontrivial"]
        + counts["molecule-spellings"]["nontrivial"],
        "rule": "evaluations = (reaction, variant) pairs judged (normal form, idempotence, "
                "similarity == 1 under pathway/ecfp/ecfp_inv) + ordered pairs of the symmetry "
                "slice. Reactions: all {} of Rxn(A17, 2) over {} molecules with every distinct "
                "permutation of each side {} every spelling profile (profile k = each molecule "
                "in its k-th spelling of universe.spell: rooted at every atom, kekule, "
                "explicit-H, 3 map numberings){}; every spelling of every alphabet molecule "
                "on its own; all {}x{} ordered pairs of a fixed slice (all left multisets <= 2 "
                "over {} x rights {}). distinct_nontrivial = distinct (reaction, variant) "
                "pairs whose raw text differs from the reaction.".format(
                    len(rx2), len(A17),
                    "x" if tier == "thorough" else "in canonical spelling, and with both "
                    "sides reversed",
                    "; thorough adds the {} reactions with one side of 3 molecules and the "
                    "other of <= 2: every permutation in canonical spelling and every profile "
                    "in reversed order (all three methods on the first/last permutation and "
                    "last profile, pathway on the rest), and the {} reactions S>>S for every "
                    "3-molecule side S with the full cross".format(n3, n3b) if n3 else "",
                    n_sym, n_sym, SYM_LEFT, SYM_RIGHT),
        "samples": ["CCCO.CCOC>>CC=O  vs  CCOC.CCCO>>CC=O",
                    "c1ccccc1>>c1ccncc1  vs  C1=CC=CC=C1>>C1=CC=NC=C1",
                    "[Na+].[Cl-]>>CC(=O)[O-]  vs  [Cl-:2].[Na+:1]>>[CH3:1][C:2](=[O:3])[O-:4]",
                    items[len(items) // 2][0]],
        "reactions": len(items),
        "per_family": counts,
        "failing_cases_by_group": by_key,
        "exhaustive": True,
    }
    res.assumptions = [
        "stereo-free inputs; RDKit canonical SMILES decides which spellings are equivalent",
        "spelling families are the finite families of mc.universe (rooted, kekule, explicit-H, "
        "mapped), not all SMILES strings of a molecule",
    ]
    return res


def replay(v):
    out = []
    if v.sub == "benchmark":
        r = benchmark_item((v.case["method"], v.case["rxns"], v.case.get("gap")))
        return [Violation("benchmark", v.case, None, None, f["key"], f["what"]) for f in r["fails"] if f["key"] == v.key][:1]
    if v.sub == "history":
        r = history_item(tuple(v.case["pair"]))
        return [Violation("history", v.case, f["observed"], f["expected"], f["key"], "history") for f in r["fails"] if f["key"] == v.key][:1]
    if v.sub == "symmetry":
        fails = judge_pair(v.case["a"], v.case["b"])
        case = v.case
    else:
        fails = judge(v.case["x"], v.case["variant"])
        case = v.case
    for f in fails:
        out.append(Violation(f["sub"], case, f["observed"], f["expected"], f["key"],
                             "{} vs {}: {}".format(f["x"], f["v"], f["observed"])))
    return out
