"""C05 — one result row per input row, in input order, for every input form.

Complete enumeration of all sequences of length 1..3 (thorough 1..4) over a row alphabet
of valid and malformed reaction values x every batch layout (batch_size None, 1..n+1) x
every source form (list of str, list of dict, CSV Dataset, JSON Dataset, command line
with --out-columns).  Every run is executed on the real code; rows are compared with the
input row at the same position and with the row's alone-run result."""

import contextlib
import csv
import io
import itertools
import json
import math
import os
import shutil
import subprocess
import sys
import tempfile

from mc import pipeline
from mc.boot import ROOT
from mc.pool import pmap
from mc.report import Result, Violation

PROPERTY = "C05"

NAN = "__NaN__"
ABSENT = "__ABSENT__"
SYMBOLS = {
    "V1": "CCO>>CC=O",                       # rule-based
    "V2": "CC(=O)O.CCO>>CC(=O)OCC.O",        # input-balanced
    "V3": "CCBr>>N",                         # valid, declined (no common substructure); only used by the stale sources
    # valid, input-balanced, written with every character class a file reader could mangle: / \\ # % @ + - = ( ) [ ]
    "V4": "C/C=C\\C#N.[NH4+].N[C@@H](C)C(=O)[O-].C%10CC%10>>C/C=C\\C#N.[NH4+].N[C@@H](C)C(=O)[O-].C%10CC%10",
    "V5": " CCO>>CC=O",                      # valid, leading blank (RDKit skips it): rule-based
    "V6": "CCO >>CC=O",                      # valid, blank before the arrow (the rest of a SMILES after a blank is its name): declined
    "M1": "C(C)(>>CC",                       # unparsable SMILES
    "M2": "CCO",                             # no separator
    "M3": "CCO>CC>CC=O",                     # reagent style
    "M4": "",                                # empty string
    "M5": "CCO>>",                           # empty side
    "M6": ">>",                              # both sides empty
    "M8": "CC(C)(C)(C)(C)C>>CC",             # well-formed text, rejected at sanitisation (valence)
    "M9": "c1cccc1>>CC",                     # well-formed text, rejected at kekulisation
    "M7a": None,                             # missing value: None / null
    "M7b": NAN,                              # missing value: NaN
    "M7c": ABSENT,                           # missing value: key / cell absent
}
VALID = ("V1", "V2", "V3", "V4", "V5", "V6")
UNSOLVABLE = ("M1", "M2", "M3", "M4", "M7a", "M7b", "M7c", "M8", "M9")   # can never be solved

SOURCE_SYMBOLS = {
    "str": ["V1", "V2", "M1", "M2", "M3", "M4", "M5", "M6", "M8", "M9"],
    "dict": ["V1", "V2", "M1", "M2", "M3", "M4", "M5", "M6", "M8", "M9", "M7a", "M7b", "M7c"],
    "csv": ["V1", "V2", "V4", "M1", "M2", "M3", "M4", "M5", "M6", "M8", "M9", "M7c"],
    "json": ["V1", "V2", "V4", "M1", "M2", "M3", "M4", "M5", "M6", "M8", "M9", "M7a", "M7c"],
    "cli": ["V1", "V2", "V4", "M1", "M2", "M3", "M4", "M5", "M6", "M8", "M9"],
    # dict rows that already carry an 'id' column with non-sequential values
    "dictid": ["V1", "V2", "M1", "M2", "M8", "M7a"],
    # non-default column names; the rows also carry a decoy 'reaction' / 'id' column
    "custom": ["V1", "V2", "M1", "M2", "M8", "M7a"],
    # a result table fed in again: dict rows that carry the output columns of an earlier (unrelated) result
    # text hygiene: blanks inside the reaction string, through memory and file sources
    "strblank": ["V1", "V5", "V6", "M1", "M2"],
    "csvblank": ["V1", "V5", "V6", "M1", "M7c"],
    # dict rows without any other key: a missing reaction is the empty dict
    "dictbare": ["V1", "V2", "M1", "M7c", "M7a"],
    "jsonbare": ["V1", "V2", "M1", "M7c"],
    "stale0": ["V1", "V2", "V3", "M1", "M7a"],
    "stale1": ["V1", "V2", "V3", "M1", "M7a"],
    "stale2": ["V1", "V2", "V3", "M1", "M7a"],
}
STALE = [
    {"input_reaction": "CC(=O)OC>>CC(=O)O", "solved": True, "solved_by": "mcs-based", "confidence": 0.9,
     "rules": ["C-O Ester break"], "issue": ""},
    {"input_reaction": "CC>>N", "solved": False, "solved_by": None, "confidence": None, "rules": [], "issue": "No MCS identified."},
    {"input_reaction": "CCO>>CC=O", "solved": True, "solved_by": "rule-based", "confidence": None, "rules": [], "issue": ""},
]


def sequences(symbols, n):
    for k in range(1, n + 1):
        for seq in itertools.product(symbols, repeat=k):
            yield seq


def layouts(n):
    return [None] + list(range(1, n + 2))


def _shm():
    return "/dev/shm" if os.path.isdir("/dev/shm") else None


def build_input(source, seq, d):
    """-> the object handed to rebalance (or the CSV path for the CLI)"""
    from synrbl.SynUtils.batching import Dataset

    vals = [SYMBOLS[s] for s in seq]
    bare = source.endswith("bare")
    if bare:
        source = source[:-4]
    if source.endswith("blank"):
        source = source[:-5]
    if source == "str":
        return list(vals)
    rows = []
    for i, v in enumerate(vals):
        r = {} if bare else {"tag": i}
        if v == NAN:
            r["reaction"] = float("nan")
        elif v == ABSENT:
            pass
        else:
            r["reaction"] = v
        rows.append(r)
    if source == "dict":
        return rows
    if source.startswith("stale"):
        k = int(source[5:])
        return [dict(r, **{c: (list(v) if isinstance(v, list) else v) for c, v in STALE[(i + k) % 3].items()}) for i, r in enumerate(rows)]
    if source == "dictid":
        for i, r in enumerate(rows):
            r["id"] = 100 - 7 * i
        return rows
    if source == "custom":
        out = []
        for i, r in enumerate(rows):
            o = {"tag": i, "reaction": "C>>C", "id": "row-{}".format(i)}
            if "reaction" in r:
                o["rxn"] = r["reaction"]
            out.append(o)
        return out
    if source == "json":
        p = os.path.join(d, "in.json")
        with open(p, "w") as f:
            json.dump(rows, f)
        return Dataset(p)
    if source in ("csv", "cli"):
        p = os.path.join(d, "in.csv")
        with open(p, "w", newline="") as f:
            w = csv.writer(f)
            w.writerow(["tag", "reaction"])
            for r in rows:
                if "reaction" in r:
                    w.writerow([r.get("tag", ""), r["reaction"]])
                else:
                    w.writerow([r.get("tag", "")])
        return Dataset(p) if source == "csv" else p
    raise ValueError(source)


_ALONE = {}


def alone(sym):
    if sym not in _ALONE:
        out = pipeline.run({"rxns": [SYMBOLS[sym]]})
        _ALONE[sym] = out["rows"][0]
    return _ALONE[sym]


def is_missing(v):
    return v is None or (isinstance(v, float) and math.isnan(v)) or v == ""


def check_rows(source, seq, rows, where):
    """-> list of (key, what)"""
    bad = []
    rcol = "rxn" if source == "custom" else "reaction"
    if rows is None or len(rows) != len(seq):
        return [(["row-count", "lost" if rows is None or len(rows) < len(seq) else "extra"],
                 "{} rows for {} inputs {} ({})".format(None if rows is None else len(rows), len(seq), list(seq), where))]
    for i, (sym, row) in enumerate(zip(seq, rows)):
        raw = SYMBOLS[sym]
        ir = row.get("input_reaction")
        if sym in ("M7a", "M7b", "M7c") or (source == "cli" and sym == "M4"):
            if not is_missing(ir):
                bad.append((["row-misplaced", "missing-value"], "row {} of {} describes {!r}, the input value is missing ({})".format(i, list(seq), ir, where)))
        elif ir != raw:
            bad.append((["row-misplaced", "valid" if sym in VALID else "malformed"],
                        "row {} of {} describes {!r} instead of {!r} ({})".format(i, list(seq), ir, raw, where)))
        if sym in VALID:
            a = alone(sym)
            for k in ("reaction", "solved", "solved_by") + (("issue", "confidence", "rules") if source.startswith("stale") else ()):
                got, want = row.get(rcol if k == "reaction" else k), a.get(k)
                if k in ("issue", "rules"):
                    got, want = got or None, want or None
                if got != want:
                    bad.append((["valid-row-differs", k], "row {} of {}: {} = {!r}, alone-run gives {!r} ({})".format(
                        i, list(seq), k, got, want, where)))
        if sym in UNSOLVABLE and row.get("solved") in (True, "True"):
            bad.append((["malformed-solved"], "row {} of {} ({!r}) is marked solved ({})".format(i, list(seq), raw, where)))
    return bad


def api_case(job):
    """worker: one (source, sequence) under every batch layout"""
    source, seq = job["source"], tuple(job["seq"])
    from synrbl import Balancer  # noqa: F401

    out = {"n": 0, "bad": []}
    for bs in layouts(len(seq)):
        d = tempfile.mkdtemp(prefix="c05_", dir=_shm())
        try:
            data = build_input(source, seq, d)
            b = pipeline.balancer(reaction_col="rxn", id_col="rid") if source == "custom" else pipeline.balancer()
            b.confidence_threshold = 0
            stats = {}
            sink = io.StringIO()
            rows, raised = None, None
            try:
                with contextlib.redirect_stderr(sink), contextlib.redirect_stdout(sink):
                    rows = b.rebalance(data, output_dict=True, stats=stats, batch_size=bs)
            except Exception as e:
                raised = "{}: {}".format(type(e).__name__, str(e)[:100])
            out["n"] += 1
            where = "source={} batch_size={}".format(source, bs)
            if raised:
                out["bad"].append({"key": ["raises", raised.split(":")[0]], "what": "{} raises {} ({})".format(list(seq), raised, where), "bs": bs})
                continue
            rows = [pipeline.norm_row(r) for r in rows]
            for key, what in check_rows(source, seq, rows, where):
                if sink.getvalue() and key[0] == "row-count":
                    what += " swallowed: " + sink.getvalue().strip().splitlines()[-1][:120]
                out["bad"].append({"key": key, "what": what, "bs": bs})
            if stats.get("reaction_cnt") != len(seq) and len(rows) == len(seq):
                out["bad"].append({"key": ["reaction_cnt"], "what": "reaction_cnt {} for {} inputs ({})".format(stats.get("reaction_cnt"), len(seq), where), "bs": bs})
        finally:
            shutil.rmtree(d, ignore_errors=True)
    return out


def refusal_case(seq):
    """worker: a list with an element that is neither str nor dict must be refused as a
    whole (ValueError) - no partial output"""
    b = pipeline.balancer()
    vals = [SYMBOLS[s] if s != "X" else 42 for s in seq]
    try:
        sink = io.StringIO()
        with contextlib.redirect_stderr(sink), contextlib.redirect_stdout(sink):
            rows = b.rebalance(vals, output_dict=True)
    except ValueError:
        return "ok"
    except Exception as e:
        return {"key": ["refusal", type(e).__name__], "what": "{} raises {} instead of ValueError".format(vals, type(e).__name__)}
    return {"key": ["refusal", "partial-output"], "what": "{} returned {} rows instead of refusing".format(vals, len(rows))}


def read_cli_output(path):
    import pandas as pd

    df = pd.read_csv(path, keep_default_na=True)
    rows = []
    for r in df.to_dict("records"):
        rows.append({k: pipeline.norm_value(v) for k, v in r.items()})
    return rows


def cli_case(job):
    """worker: the command-line entry point (in process through argparse, or as a real
    subprocess) with --out-columns tag"""
    seq, bs, real = tuple(job["seq"]), job["bs"], job.get("subprocess", False)
    d = tempfile.mkdtemp(prefix="c05cli_", dir=_shm())
    out = {"n": 1, "bad": []}
    where = "cli{} batch_size={}".format(" subprocess" if real else "", bs)
    try:
        src = build_input("cli", seq, d)
        dst = os.path.join(d, "out.csv")
        argv = ["run", src, "-o", dst, "-p", "1", "--out-columns", "tag"]
        if bs is not None:
            argv += ["-b", str(bs)]
        raised = None
        if real:
            env = dict(os.environ)
            env["PYTHONPATH"] = ROOT + os.pathsep + env.get("PYTHONPATH", "")
            p = subprocess.run([sys.executable, "-m", "synrbl"] + argv, cwd=d, env=env, capture_output=True, text=True, timeout=600)
            if p.returncode != 0:
                raised = (p.stderr.strip().splitlines() or ["?"])[-1][:160]
        else:
            import synrbl.SynCmd as cmd

            sink = io.StringIO()
            try:
                with contextlib.redirect_stderr(sink), contextlib.redirect_stdout(sink):
                    args = cmd.setup_argparser().parse_args(argv)
                    args.func(args)
            except (Exception, SystemExit) as e:
                raised = "{}: {}".format(type(e).__name__, str(e)[:100])
        first_ok = seq[0] in VALID
        if raised:
            if not first_ok and not os.path.exists(dst):
                return out  # explicit refusal of a file whose first row is no reaction, nothing written
            out["bad"].append({"key": ["cli-raises", raised.split(":")[0]], "what": "{} -> {} ({})".format(list(seq), raised, where), "bs": bs})
            return out
        if not os.path.exists(dst):
            out["bad"].append({"key": ["cli-no-output"], "what": "{}: no output file ({})".format(list(seq), where), "bs": bs})
            return out
        rows = read_cli_output(dst)
        bad = check_rows("cli", seq, rows, where)
        if len(rows) == len(seq):
            for i, r in enumerate(rows):
                if r.get("tag") != i:
                    bad.append((["cli-passthrough-shifted"], "output line {} of {} carries tag {!r} ({})".format(i, list(seq), r.get("tag"), where)))
        st = dst + ".stats"
        if os.path.exists(st):
            with open(st) as f:
                stats = json.load(f)
            if stats.get("reaction_cnt") != len(seq):
                bad.append((["reaction_cnt", "cli"], "stats file says reaction_cnt {} for {} inputs ({})".format(stats.get("reaction_cnt"), len(seq), where)))
        else:
            bad.append((["cli-no-stats"], "no .stats file ({})".format(where)))
        for key, what in bad:
            out["bad"].append({"key": key, "what": what, "bs": bs})
    finally:
        shutil.rmtree(d, ignore_errors=True)
    return out


def run(tier, seed):
    res = Result("exploration")
    n = 3 if tier == "quick" else 4
    jobs = []
    if tier == "quick":
        # depth 2 complete for every source; depth 3 complete over a 6-symbol sub-alphabet
        # for the two in-memory sources
        for source in ("str", "dict", "csv", "json"):
            for seq in sequences(SOURCE_SYMBOLS[source], 2):
                jobs.append({"source": source, "seq": list(seq)})
        for source in ("dictid", "custom", "stale0", "stale1", "stale2", "strblank", "csvblank", "dictbare", "jsonbare"):
            for seq in sequences(SOURCE_SYMBOLS[source], 2):
                jobs.append({"source": source, "seq": list(seq)})
        for source, sub in (("dict", ["V1", "V2", "M1", "M2", "M8", "M7a"]), ("str", ["V1", "V2", "M1", "M9", "M3", "M5"])):
            for seq in itertools.product(sub, repeat=3):
                jobs.append({"source": source, "seq": list(seq)})
    else:
        for source in ("str", "dict", "csv", "json", "dictid", "custom", "stale0", "stale1", "stale2", "strblank", "csvblank", "dictbare", "jsonbare"):
            nn = 4 if source == "str" else 3
            for seq in sequences(SOURCE_SYMBOLS[source], nn):
                jobs.append({"source": source, "seq": list(seq)})
    r = pmap("checks.c05:api_case", jobs, chunk=16, seed=seed, timeout=7200)
    n_runs = 0
    for job, x in zip(jobs, r):
        n_runs += x["n"]
        for b in x["bad"]:
            res.add(Violation("api", {"source": job["source"], "seq": job["seq"], "bs": b["bs"]}, None, None, b["key"], b["what"]))
    # refusal of non-str/non-dict list elements
    ref = [list(s) for s in sequences(["V1", "V2", "X"], 3) if "X" in s]
    rr = pmap("checks.c05:refusal_case", ref, chunk=8, seed=seed)
    for seq, x in zip(ref, rr):
        if isinstance(x, dict):
            res.add(Violation("refusal", {"seq": seq}, None, None, x["key"], x["what"]))
    # command line
    cli_jobs = []
    for seq in sequences(SOURCE_SYMBOLS["cli"], 3 if tier == "thorough" else 2):
        for bs in layouts(len(seq)):
            cli_jobs.append({"seq": list(seq), "bs": bs})
    if tier == "quick":
        # plus the length-3 sequences that start with a valid row, one layout each side
        for seq in sequences(SOURCE_SYMBOLS["cli"], 3):
            if len(seq) == 3 and seq[0] in VALID:
                cli_jobs.append({"seq": list(seq), "bs": 2})
    sub = [{"seq": ["V1", "M1", "V2"], "bs": None, "subprocess": True},
           {"seq": ["V2", "M2", "V1"], "bs": 2, "subprocess": True}]
    if tier == "thorough":
        sub += [{"seq": list(s), "bs": 1, "subprocess": True} for s in sequences(["V2", "M1", "M2", "M4"], 2) if s[0] == "V2"]
    rc = pmap("checks.c05:cli_case", cli_jobs + sub, chunk=4, seed=seed, timeout=7200)
    for job, x in zip(cli_jobs + sub, rc):
        n_runs += x["n"]
        for b in x["bad"]:
            res.add(Violation("cli", {"seq": job["seq"], "bs": job["bs"], "subprocess": job.get("subprocess", False)},
                              None, None, b["key"], b["what"]))
    n_mixed = sum(1 for j in jobs if any(s not in VALID for s in j["seq"])) + sum(
        1 for j in cli_jobs if any(s not in VALID for s in j["seq"]))
    res.coverage = {
        "evaluations": n_runs + len(ref),
        "distinct_nontrivial": n_mixed,
        "rule": "all sequences of length 1..{} over the row alphabet {{2 valid, unparsable text, valence error, kekulisation "
                "error, no '>>', reagent style, empty string, empty side, '>>', None, NaN, absent}} (per source the values it can express; quick: length "
                "<= 2 complete and length 3 over a 6-symbol sub-alphabet for the in-memory sources; thorough: length <= 3 "
                "for all sources, <= 4 for list-of-str) x batch_size "
                "None,1..n+1 x sources list-of-str, list-of-dict, dict rows with a pre-existing non-sequential id column, custom column names (reaction_col / id_col) with decoy columns, dict rows carrying the output columns of an earlier unrelated result (3 rotations), CSV Dataset, JSON Dataset; CLI (argparse entry, in "
                "process) with --out-columns tag for all sequences of length <= {} x all layouts, {} real subprocess "
                "runs; refusal of non-str/dict elements.  Non-trivial = distinct (source, sequence) cases containing at "
                "least one malformed row.".format(n, 3 if tier == "thorough" else 2, len(sub)),
        "samples": [jobs[10], jobs[-1], cli_jobs[5]],
        "api_cases": len(jobs),
        "cli_cases": len(cli_jobs),
        "cli_subprocess_cases": len(sub),
        "exhaustive": True,
    }
    res.assumptions = ["explicit refusals (ValueError for a non-str/dict element; the CLI rejecting a file whose first row "
                       "is not a reaction, nothing written) are not violations",
                       "valid rows are compared with their alone-run result (batch independence itself is C06)"]
    return res


def replay(v):
    c = v.case
    if v.sub == "api":
        x = api_case({"source": c["source"], "seq": c["seq"]})
        return [Violation("api", c, None, None, b["key"], b["what"]) for b in x["bad"] if b["key"] == v.key and b["bs"] == c["bs"]]
    if v.sub == "refusal":
        x = refusal_case(c["seq"])
        return [Violation("refusal", c, None, None, x["key"], x["what"])] if isinstance(x, dict) and x["key"] == v.key else []
    x = cli_case({"seq": c["seq"], "bs": c["bs"], "subprocess": c.get("subprocess", False)})
    return [Violation("cli", c, None, None, b["key"], b["what"]) for b in x["bad"] if b["key"] == v.key]
