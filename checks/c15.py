"""C15 — atom-map removal keeps every molecule chemically identical.

E1: bounded-exhaustive enumeration of *all* bracket-atom forms over the periodic table
(element x isotope x chirality x H count x charge x map number) in a fixed list of bonding
environments, of the aromatic bracket atoms, of explicit-bond / explicit-H spellings of a
small molecule universe, and of every molecule of every corpus reaction.

Oracle (per molecule, closed-shell inputs only):
    canon(clear_maps(parse(s))) == canon(parse(remove_atom_mapping(s)))
    and no ':<digits>' is left inside a bracket of the output.

The strings are generated inside the workers from a compact work list; a worker returns
counts and the failing cases grouped by root-cause key.
"""

import re

from rdkit import Chem

from mc import oracle, universe
from mc.pool import pmap
from mc.report import Result, Violation

PROPERTY = "C15"
_PT = Chem.GetPeriodicTable()

CHIRALITY = ["", "@", "@@"]
HCOUNTS = ["", "H", "H2", "H3", "H4", "H5", "H6"]
CHARGES = ["", "+", "-", "+2", "-2", "+3", "-3"]
MAPS = ["", ":1", ":12"]
MAPS_THOROUGH = ["", ":1", ":12", ":0", ":305"]

# bonding environments of one bracket atom X ({X}); a second {X} repeats the same form
ENVS = [
    "{X}",
    "C{X}",
    "{X}C",
    "C{X}C",
    "C={X}",
    "{X}=C",
    "C#{X}",
    "C{X}(C)C",
    "C{X}(C)(C)C",
    "C1C{X}C1",
    "{X}1CCCC1",
    "C{X}=O",
    "O={X}=O",
    "C{X}(=O)(=O)C",
    "F{X}(F)(F)(F)F",
    "{X}[CH3:2]",
    "[CH3:2]{X}",
    "{X}{X}",
    "C{X}.{X}C",
    "C{X}>>{X}C",
    "C{X}(N)O",
    "C{X}(N)(O)F",
    "C{X}(N)=O",
]
# environments in which a chirality mark on X can be meaningful (>= 3 distinct neighbours);
# the quick tier writes @/@@ forms only there, the thorough tier everywhere
CHIRAL_ENVS = ["C{X}(N)O", "C{X}(N)(O)F", "C{X}(N)=O"]
ENVS_THOROUGH = ENVS + [
    "N{X}",
    "O{X}",
    "Cl{X}",
    "{X}Cl",
    "C{X}(C)(C)(C)C",
    "F{X}(F)(F)(F)(F)F",
    "C%12C{X}C%12",
    "[Na+].{X}",
    "c1ccccc1{X}",
    "{X}c1ccccc1",
    "C{X}.C{X}>>C{X}{X}C",
]

AROMATIC = ["b", "c", "n", "o", "p", "s", "se", "te", "as", "si"]
AROMATIC_ENVS = [
    "c1cc{X}c1",
    "{X}1cccc1",
    "c1ccc{X}c1",
    "{X}1ccccc1",
    "c1cc{X}(C)cc1",
    "c1cc{X}(C)c1",
    "c1cc{X}[cH:7]c1",
    "c1ccc{X}[cH:7]1",
    "c1cc{X}{X}c1",
    "c1cc{X}{X}cc1",
    "c1ccc2{X}ccc2c1",
    "c1ccc2c{X}cc2c1",
    "c1ccc2cc{X}ccc2c1",
    "C{X}1cccc1",
    "Cc1cc{X}cc1.{X}1cccc1",
    "c1cc{X}c1>>{X}1cccc1",
]

SYNTAX_AROMATICS = [
    "c1ccccc1", "c1ccncc1", "c1cc[nH]c1", "c1ccoc1", "c1ccsc1", "Cc1ccccc1",
    "O=[N+]([O-])c1ccccc1", "c1ccc2ccccc2c1", "c1ccc2[nH]ccc2c1", "c1cnc[nH]1",
    "Oc1ccccc1", "c1ccc(-c2ccccc2)cc1",
]

ORGANIC = ("B", "C", "N", "O", "P", "S", "F", "Cl", "Br", "I")
_SURVIVOR = re.compile(r"\[[^\]]*:\d+[^\]]*\]")
_BRACKET = re.compile(r"\[[^\]]*\]")
_AROM_RC = re.compile(r":%?\d")


# --------------------------------------------------------------------------- the oracle


def _tokens(s):
    return [side.split(".") for side in s.split(">>")]


def ident(smiles_or_mol):
    """Identity of a molecule: RDKit canonical SMILES (isomeric, maps cleared) taken to
    its re-read fixpoint.  One pass is not representation-independent: RDKit's clean-up of
    hypervalent N / halogen oxides looks at the *explicit* valence, so 'O=[IH]=O' and
    'O=I=O' (same graph, same hydrogens) get different one-pass canonical strings but the
    same fixpoint.  None when unparsable."""
    m = oracle.parse(smiles_or_mol) if isinstance(smiles_or_mol, str) else smiles_or_mol
    if m is None:
        return None
    c = oracle.canon_mol(m)
    for _ in range(3):
        c2 = oracle.canon(c)
        if c2 is None or c2 == c:
            break
        c = c2
    return c


def unbracket_culprits(tin):
    """Bracket atoms of the input that are written as [El], [ElH] or [ElHn] with El in the
    organic subset (what the second regular expression turns into a bare symbol) and whose
    written hydrogen count is not the one RDKit gives the bare symbol in that place."""
    try:
        raw = Chem.MolFromSmiles(tin, sanitize=False)
    except Exception:
        raw = None
    if raw is None:
        return []
    out = []
    for a in raw.GetAtoms():
        if not a.GetNoImplicit() or a.GetSymbol() not in ORGANIC or a.GetIsAromatic():
            continue
        if a.GetIsotope() or a.GetFormalCharge():
            continue
        if a.GetChiralTag() != Chem.ChiralType.CHI_UNSPECIFIED:
            continue
        h = a.GetNumExplicitHs()
        if h > 9:
            continue
        rw = Chem.RWMol(raw)
        b = rw.GetAtomWithIdx(a.GetIdx())
        b.SetNoImplicit(False)
        b.SetNumExplicitHs(0)
        try:
            Chem.SanitizeMol(rw)
            h2 = rw.GetAtomWithIdx(a.GetIdx()).GetTotalNumHs()
        except Exception:
            h2 = None
        if h2 != h:
            out.append((a.GetSymbol(), h))
    return sorted(out)


def classify(tin, tout):
    """Root-cause signature of one failing molecule (input token, output token)."""
    if _SURVIVOR.search(tout):
        return ["map-survives"]
    mo = oracle.parse(tout)
    if mo is None and _AROM_RC.search(_BRACKET.sub("", tin)):
        return ["aromatic-bond-ring-closure"]
    culprits = unbracket_culprits(tin)
    if mo is None:
        if culprits:
            return ["hypervalent-hydride", culprits[0][0], culprits[0][1]]
        return ["unparsable-output"]
    ci, co = oracle.comp(tin), oracle.comp_mol(mo)
    heavy_same = {k: v for k, v in ci.items() if k not in ("H", "Q")} == {
        k: v for k, v in co.items() if k not in ("H", "Q")
    }
    if heavy_same and culprits and ci.get("H", 0) != co.get("H", 0):
        return ["hypervalent-hydride", culprits[0][0], culprits[0][1]]
    return ["molecule-changed", "other"]


def check_string(s, out=None):
    """Apply remove_atom_mapping to the whole string and compare molecule by molecule.
    Returns (n_molecules_in_domain, [failure dicts])."""
    if out is None:
        from synrbl.SynUtils.chem_utils import remove_atom_mapping

        out = remove_atom_mapping(s)
    tin, tout = _tokens(s), _tokens(out)
    fails = []
    n = 0
    if [len(x) for x in tin] != [len(x) for x in tout]:
        if all(oracle.closed_shell(t) for side in tin for t in side):
            fails.append({"s": s, "mol": s, "out": out, "key": ["structure-changed"]})
            return 1, fails
        return 0, fails
    for side_i, side_o in zip(tin, tout):
        if any(oracle.parse(t) is None for t in side_i):
            # ring closures across '.', compare the whole side as one molecule
            side_i, side_o = [".".join(side_i)], [".".join(side_o)]
        for ti, to in zip(side_i, side_o):
            if ti == "":
                continue
            mi = oracle.parse(ti)
            if mi is None or any(a.GetNumRadicalElectrons() for a in mi.GetAtoms()):
                continue
            n += 1
            bad = _SURVIVOR.search(to) is not None
            if not bad and to != ti:
                want = oracle.canon_mol(mi)
                got = oracle.canon(to)
                if got != want:
                    want, got = ident(mi), ident(to)
                    bad = got != want
            if bad:
                fails.append({"s": s, "mol": ti, "out": to, "want": ident(mi),
                              "got": ident(to), "key": classify(ti, to)})
    return n, fails


# --------------------------------------------------------------------------- workers


def _ex_order(e):
    # smallest example first; everyday molecules before RDKit's exotic tiny aromatic rings
    return (e.get("rank", 0), len(e["s"]), e["s"])


class _Acc:
    """counts + failures grouped by key (count, a few smallest examples)"""

    def __init__(self):
        self.cases = 0
        self.valid_strings = 0
        self.molecules = 0
        self.forms_changed = 0
        self.forms_valid = 0
        self.groups = {}

    def fail(self, f):
        k = repr(f["key"])
        g = self.groups.setdefault(k, {"key": f["key"], "count": 0, "examples": []})
        g["count"] += 1
        ex = g["examples"]
        ex.append(f)
        ex.sort(key=_ex_order)
        del ex[4:]

    def result(self):
        return {
            "cases": self.cases,
            "valid_strings": self.valid_strings,
            "molecules": self.molecules,
            "forms_changed": self.forms_changed,
            "forms_valid": self.forms_valid,
            "groups": [self.groups[k] for k in sorted(self.groups)],
        }


def _run_forms(forms, envs, acc):
    from synrbl.SynUtils.chem_utils import remove_atom_mapping

    for x in forms:
        valid = False
        for env in envs:
            s = env.replace("{X}", x)
            acc.cases += 1
            n, fails = check_string(s)
            if n:
                valid = True
                acc.valid_strings += 1
                acc.molecules += n
            for f in fails:
                acc.fail(f)
        if valid:
            acc.forms_valid += 1
            if remove_atom_mapping(x) != x:
                acc.forms_changed += 1


def element_item(item):
    """item = (Z, isotope?, tier): every bracket form of that element/isotope choice"""
    z, iso, tier = item
    sym = _PT.GetElementSymbol(z)
    mass = str(int(round(_PT.GetAtomicWeight(z)))) if iso else ""
    maps = MAPS_THOROUGH if tier == "thorough" else MAPS
    envs = ENVS_THOROUGH if tier == "thorough" else ENVS
    acc = _Acc()
    for ch in CHIRALITY:
        forms = [
            "[{}{}{}{}{}{}]".format(mass, sym, ch, h, q, m)
            for h in HCOUNTS for q in CHARGES for m in maps
        ]
        _run_forms(forms, CHIRAL_ENVS if ch and tier != "thorough" else envs, acc)
    return acc.result()


def aromatic_item(item):
    sym, tier = item
    maps = MAPS_THOROUGH if tier == "thorough" else MAPS
    forms = [
        "[{}{}{}{}]".format(sym, h, q, m)
        for h in ("", "H") for q in ("", "+", "-") for m in maps
    ]
    acc = _Acc()
    _run_forms(forms, AROMATIC_ENVS, acc)
    return acc.result()


def syntax_spellings(smiles):
    """explicit-bond / explicit-H writings RDKit itself can emit, with and without maps"""
    m = Chem.MolFromSmiles(smiles)
    mm = Chem.Mol(m)
    for a in mm.GetAtoms():
        a.SetAtomMapNum(a.GetIdx() + 1)
    out = []
    for mol in (m, mm):
        for i in range(mol.GetNumAtoms()):
            for kw in (
                {"allBondsExplicit": True},
                {"allBondsExplicit": True, "allHsExplicit": True},
                {"allHsExplicit": True},
                {"kekuleSmiles": True, "allBondsExplicit": True},
            ):
                k = Chem.Mol(mol)
                if kw.get("kekuleSmiles"):
                    Chem.Kekulize(k, clearAromaticFlags=True)
                s = Chem.MolToSmiles(k, rootedAtAtom=i, canonical=False, **kw)
                if s not in out:
                    out.append(s)
    return out


def syntax_item(smiles):
    from synrbl.SynUtils.chem_utils import remove_atom_mapping

    acc = _Acc()
    for s in syntax_spellings(smiles):
        acc.cases += 1
        n, fails = check_string(s)
        if n:
            acc.valid_strings += 1
            acc.molecules += n
            acc.forms_valid += 1
            if remove_atom_mapping(s) != s:
                acc.forms_changed += 1
        for f in fails:
            f["rank"] = 0 if smiles in SYNTAX_AROMATICS else 1
            acc.fail(f)
    return acc.result()


def corpus_item(rsmi):
    from synrbl.SynUtils.chem_utils import remove_atom_mapping

    acc = _Acc()
    acc.cases = 1
    n, fails = check_string(rsmi)
    if n:
        acc.valid_strings = 1
        acc.molecules = n
        acc.forms_valid = 1
        if remove_atom_mapping(rsmi) != rsmi:
            acc.forms_changed = 1
    for f in fails:
        acc.fail(f)
    return acc.result()


def size_ladder():
    """fully atom-mapped strings with map counts around typical shortcut thresholds"""
    out = []
    for n in (1, 2, 3, 9, 10, 11, 63, 64, 65, 99, 100, 101, 127, 128, 129, 255, 256, 257, 300, 511, 512, 513, 999, 1000, 1001):
        out.append("".join("[CH3:{}]".format(k) if k in (1, n) and n > 1 else ("[CH4:1]" if n == 1 else "[CH2:{}]".format(k))
                           for k in range(1, n + 1)))
        out.append(".".join("[OH2:{}]".format(k) for k in range(1, n + 1)))
        if n in (1, 2, 9, 10, 11, 99, 100):
            # ring-closure numbers of one, two ('%nn') digits next to mapped bracket atoms, two-letter elements
            rc = str(n) if n < 10 else "%{}".format(n)
            out.append("[CH2:{0}]{1}[CH2:{2}][CH2:{3}]{1}".format(n, rc, n + 1, n + 2))
            out.append("[CH:{0}]{1}=[CH:{2}][Se:{3}][CH:{4}]=[CH:{5}]{1}".format(n, rc, n + 1, n + 2, n + 3, n + 4))
            out.append("[Cl:{0}][Si:{1}]{2}([Br:{3}])[CH2:{4}][CH2:{5}]{2}".format(n, n + 1, rc, n + 2, n + 3, n + 4))
            out.append("[Cl:{6}][c:{0}]{1}[cH:{2}][cH:{3}][n:{4}][cH:{5}][cH:{7}]{1}".format(n, rc, n + 1, n + 2, n + 3, n + 4, n + 6, n + 5))
            out.append("[13CH3:{0}][C@@H:{1}]([NH3+:{2}])[C:{3}](=[O:{4}])[O-:{5}]".format(n, n + 1, n + 2, n + 3, n + 4, n + 5))
        out.append("".join("[CH2:{}][CH2:{}][O:{}]".format(3 * k + 1, 3 * k + 2, 3 * k + 3) for k in range(n)) + "[CH3:{}]".format(3 * n + 1)
                   + ">>" + "[OH2:{}]".format(3 * n + 2))
    return out


PIPE_ROWS = {
    "U": "CCO>>CC=O",                                                           # unmapped, no bracket atom
    "M": "[CH3:1][CH2:2][OH:3]>>[CH3:1][CH:2]=[O:3]",                           # mapped
    "B": "CC(=O)[O-].[Na+]>>CC(=O)O",                                           # unmapped, bracket atoms
    "E": "[CH3:1][C:2](=[O:3])[O:4][CH2:5][CH3:6]>>[CH3:1][C:2](=[O:3])[OH:4]",  # mapped, MCS path
    # a result row of an earlier run made with remove_aam = False, fed in again: mapped, with a stale mapped input_reaction
    "S": {"reaction": "[CH3:1][CH2:2][CH2:3][CH3:4]>>[CH3:1][C:2]#[N:5]",
          "input_reaction": "[CH3:1][CH2:2][CH2:3][CH3:4]>>[CH3:1][C:2]#[N:5]", "solved": False},
}


def pipeline_item(job):
    """rebalance outputs never carry atom maps, whatever the batch looks like"""
    import itertools as _it
    import re as _re

    from mc import pipeline

    seq, bs = job
    rxns = [PIPE_ROWS[k] for k in seq]
    out = pipeline.run({"rxns": rxns, "batch_size": bs})
    bad = []
    rows = out["rows"] or []
    if len(rows) != len(rxns):
        return {"n": 1, "bad": [{"key": ["pipeline", "row-count"], "what": "{} rows for batch {}".format(len(rows), seq)}]}
    for i, (rx, row) in enumerate(zip(rxns, rows)):
        for col in ("reaction", "input_reaction"):
            v = row.get(col) or ""
            if _re.search(r"\[[^\]]*:\d+\]", v):
                bad.append({"key": ["pipeline", "map-survives", col],
                            "what": "row {} of batch {} (batch_size={}): column {} still carries atom maps: {}".format(i, list(seq), bs, col, v[:120])})
        want = [oracle.mols(s) for s in (rx["reaction"] if isinstance(rx, dict) else rx).split(">>")]
        got = [oracle.mols(s) for s in (row.get("input_reaction") or ">>").split(">>")]
        if got != want:
            bad.append({"key": ["pipeline", "input-changed"],
                        "what": "row {} of batch {}: input_reaction {} is not the input with its maps cleared".format(i, list(seq), row.get("input_reaction"))})
    return {"n": len(rxns), "bad": bad}


MAPPED_BALANCED = "[CH3:1][C:2](=[O:3])[O:4][CH2:5][CH3:6].[OH2:7]>>[CH3:1][C:2](=[O:3])[OH:4].[CH3:6][CH2:5][OH:7]"


def large_batch_item(job):
    """one batch of n mapped (already balanced) reactions through a Balancer that is told to use
    several workers; the controlled joblib seam decides what a worker shares with its caller
    (inline = threads / n_jobs=1 semantics, task = pickled copies as in a process pool)"""
    import re as _re

    from synrbl import Balancer

    from mc import seams

    n, iso = job
    key = "large-batch-balancer"
    if key not in _CACHE:
        _CACHE[key] = Balancer(n_jobs=2)
    b = _CACHE[key]
    rxns = [MAPPED_BALANCED] * n
    ctl = seams.Controller(isolation=iso)
    with seams.controlled(ctl):
        rows = b.rebalance(list(rxns), output_dict=True)
    bad = []
    if len(rows) != n:
        bad.append({"key": ["pipeline", "row-count"], "what": "{} rows for a batch of {} (isolation {})".format(len(rows), n, iso)})
    for i, row in enumerate(rows):
        for col in ("reaction", "input_reaction"):
            v = row.get(col) or ""
            if _re.search(r"\[[^\]]*:\d+\]", v):
                bad.append({"key": ["pipeline", "map-survives", col, "large-batch"],
                            "what": "batch of {} rows, n_jobs=2, isolation {}: row {} column {} still carries atom maps".format(n, iso, i, col)})
                break
        if bad:
            break
    return {"n": n, "bad": bad}


_CACHE = {}


# --------------------------------------------------------------------------- driver


def _merge(results, into):
    for r in results:
        for k in ("cases", "valid_strings", "molecules", "forms_changed", "forms_valid"):
            into[k] = into.get(k, 0) + r[k]
        for g in r["groups"]:
            k = repr(g["key"])
            t = into["groups"].setdefault(k, {"key": g["key"], "count": 0, "examples": []})
            t["count"] += g["count"]
            t["examples"].extend(g["examples"])
            t["examples"].sort(key=_ex_order)
            del t["examples"][3:]


def _what(key, g, e):
    return "{} -> {} (molecule {} became {}); {} failing case(s) with this key".format(
        e["s"], e["out"] if e["mol"] == e["s"] else "...{}...".format(e["out"]),
        e.get("want"), e.get("got"), g["count"])


def run(tier, seed):
    res = Result("exploration")
    families = {}

    def family(name, spec, items, chunk):
        tot = {"groups": {}}
        _merge(pmap(spec, items, chunk=chunk, seed=seed), tot)
        families[name] = tot

    family("bracket-forms", "checks.c15:element_item",
           [(z, iso, tier) for z in range(1, 119) for iso in (0, 1)], 1)
    family("aromatic-forms", "checks.c15:aromatic_item", [(s, tier) for s in AROMATIC], 1)
    syn = list(SYNTAX_AROMATICS) + universe.U(["C", "N", "O"], 4)
    if tier == "thorough":
        syn += [s for s in universe.U(["C", "N", "O", "S", "P", "Cl"], 4, rings=False)
                if s not in syn]
    family("explicit-bond-spellings", "checks.c15:syntax_item", syn, 20)
    rows = universe.corpus_rows()
    rsmis = []
    for col in ("reaction", "expected_reaction"):
        for row in rows:
            v = row.get(col) or ""
            if v:
                rsmis.append(v)
    rsmis = sorted(set(rsmis), key=lambda s: (len(s), s))
    family("corpus", "checks.c15:corpus_item", rsmis, 100)
    family("size-ladder", "checks.c15:corpus_item", size_ladder(), 5)
    # text hygiene: blanks / tabs RDKit tolerates in a reaction string (leading, around the arrow, trailing)
    mapped = ["[CH3:1][OH:2]>>[CH3:1][Cl:3]", "[CH3:1][C:2](=[O:3])[O:4][CH2:5][CH3:6]>>[CH3:1][C:2](=[O:3])[OH:4]",
              "[cH:1]1[cH:2][cH:3][cH:4][cH:5][c:6]1[Br:7].[OH2:8]>>[cH:1]1[cH:2][cH:3][cH:4][cH:5][c:6]1[OH:8]"]
    blanks = []
    for m in mapped:
        a, b = m.split(">>")
        blanks += [" " + m, m + " ", a + " >>" + b, a + ">> " + b, a + " >> " + b, a + "\t>>" + b, "  " + a + ">>" + b + "\n"]
    family("blanks", "checks.c15:corpus_item", blanks, 3)
    import itertools as _it

    pjobs = [(seq, bs) for n in (1, 2, 3) for seq in _it.product(sorted(PIPE_ROWS), repeat=n) for bs in (None, 1, 2)
             if not (bs == 2 and n < 3) or n >= 2]
    # position ladder: ONE mapped row behind k bracket-free rows in one batch (a decision taken from the leading
    # rows of a batch, or from a sample of them, shows here), k around the usual probe / chunk sizes
    for k in (4, 7, 8, 9, 10, 15, 16, 17, 31, 32, 33, 63, 64, 65, 100, 127, 128, 129):
        for m in ("M", "E"):
            pjobs.append((("U",) * k + (m, "U"), None))
        pjobs.append((("U",) * k + ("M",), 2 * k))
    pres = pmap("checks.c15:pipeline_item", pjobs, chunk=4, seed=seed, timeout=7200)
    pipe_bad = {}
    for job, r in zip(pjobs, pres):
        for b in r["bad"]:
            pipe_bad.setdefault(repr(b["key"]), []).append((job, b))
    ljobs = [(n, iso) for n in (2, 63, 64, 65, 127, 128, 129, 255, 256, 257, 300) for iso in ("inline", "task")]
    lres = pmap("checks.c15:large_batch_item", ljobs, chunk=1, seed=seed, timeout=7200)
    pres = list(pres) + list(lres)
    for job, r in zip(ljobs, lres):
        for b in r["bad"]:
            pipe_bad.setdefault(repr(b["key"]), []).append(((("large",) + tuple(job), None), b))

    all_groups = {}
    for name in sorted(families):
        for k, g in families[name]["groups"].items():
            t = all_groups.setdefault(k, {"key": g["key"], "count": 0, "examples": [],
                                          "families": []})
            t["count"] += g["count"]
            t["families"].append(name)
            t["examples"].extend(dict(e, family=name) for e in g["examples"])
    for k in sorted(all_groups):
        g = all_groups[k]
        g["examples"].sort(key=_ex_order)
        shown = set()
        for e in g["examples"]:
            if e["family"] in shown:
                continue
            shown.add(e["family"])
            res.add(Violation(e["family"], e["s"],
                              {"output_molecule": e["out"], "canonical": e.get("got")},
                              {"canonical": e.get("want")}, g["key"], _what(k, g, e)))

    for k in sorted(pipe_bad):
        for job, b in pipe_bad[k][:3]:
            res.add(Violation("pipeline", {"seq": list(job[0]), "bs": job[1]}, None, None, b["key"], b["what"]))

    tot = {k: sum(f.get(k, 0) for f in families.values())
           for k in ("cases", "valid_strings", "molecules", "forms_changed", "forms_valid")}
    tot["cases"] += sum(r["n"] for r in pres)
    res.coverage = {
        "evaluations": tot["cases"],
        "distinct_nontrivial": tot["forms_changed"],
        "rule": "evaluations = strings generated and passed through remove_atom_mapping "
                "(118 elements x isotope {{none, rounded atomic weight}} x chirality "
                "{{none,@,@@{}}} x H {{none,H..H6}} x charge {{0,+-1,+-2,+-3}} x map {} in {} "
                "bonding environments; {} aromatic symbols x H x charge x map in {} ring "
                "environments; explicit-bond/explicit-H writings rooted at every atom of {} "
                "molecules; {} distinct corpus reaction strings; a size ladder of fully mapped strings with 1..1001 map "
                "numbers; rebalance batches of mapped/unmapped rows, incl. one mapped row behind k = 4..129 bracket-free rows of the same batch). Only molecules RDKit parses "
                "without radical electrons are judged (valid_strings / molecules). "
                "distinct_nontrivial = distinct closed-shell bracket forms (resp. syntax "
                "spellings, corpus reactions) whose text remove_atom_mapping actually "
                "changed.".format(
                    "" if tier == "thorough" else " only in the %d environments with >= 3 "
                    "distinct neighbours" % len(CHIRAL_ENVS),
                    MAPS_THOROUGH if tier == "thorough" else MAPS,
                    len(ENVS_THOROUGH if tier == "thorough" else ENVS),
                    len(AROMATIC), len(AROMATIC_ENVS), len(syn), len(rsmis)),
        "samples": ["C[PH2:1](C)C", "[13C@@H2+:12]", "c1cc[nH:1]c1",
                    "F[235U+3:12](F)(F)(F)F", rsmis[len(rsmis) // 2][:120]],
        "valid_strings": tot["valid_strings"],
        "molecules_judged": tot["molecules"],
        "closed_shell_forms": tot["forms_valid"],
        "per_family": {
            n: {k: f.get(k, 0) for k in ("cases", "valid_strings", "molecules",
                                          "forms_changed", "forms_valid")}
            for n, f in families.items()},
        "failing_cases_by_key": {k: all_groups[k]["count"] for k in sorted(all_groups)},
        "exhaustive": True,
    }
    res.assumptions = [
        "RDKit's parser, valence model (closed-shell = no radical electron) and canonical "
        "SMILES (isomeric, taken to its re-read fixpoint) decide molecule identity",
        "the clause 'rebalancing outputs never contain atom-map numbers' is checked on every ordered batch of "
        "1..3 rows over {unmapped, mapped, unmapped with bracket atoms, mapped MCS-path} x batch sizes, and on single batches of 2..300 mapped rows with several workers under inline and pickled-argument isolation",
    ]
    return res


def replay(v):
    if v.sub == "pipeline" and v.case["seq"][:1] == ["large"]:
        r = large_batch_item((v.case["seq"][1], v.case["seq"][2]))
        return [Violation(v.sub, v.case, None, None, b["key"], b["what"]) for b in r["bad"] if b["key"] == v.key][:1]
    if v.sub == "pipeline":
        r = pipeline_item((tuple(v.case["seq"]), v.case["bs"]))
        return [Violation(v.sub, v.case, None, None, b["key"], b["what"]) for b in r["bad"] if b["key"] == v.key][:1]
    n, fails = check_string(v.case)
    out = []
    for f in fails:
        out.append(Violation(v.sub, v.case, {"output_molecule": f["out"], "canonical": f.get("got")},
                             {"canonical": f.get("want")}, f["key"],
                             "{} -> {} (want {}, got {})".format(
                                 f["mol"], f["out"], f.get("want"), f.get("got"))))
    return out
