#!/bin/bash
# usage: try_mutant.sh <patch.diff> <demo.py|-> <check ids, comma separated> [tier] [--no-tests]
# Applies the patch to a fresh scratch worktree of /repo HEAD (never to /repo itself), confirms
# the demonstration (fails with the change, passes without), runs the pinned test-suite on the
# changed tree, and runs the named checks against it with output redirected away from /verif.
set -u
PATCH=$(realpath "$1"); DEMO="$2"; CHECKS="$3"; TIER="${4:-quick}"; NOTESTS="${5:-}"
TAG=$(basename "$(dirname "$PATCH")")_$(basename "$PATCH" .diff)_$$
WT=/tmp/mv/$TAG
mkdir -p /tmp/mv
git -C /repo worktree add -q --detach "$WT" HEAD || exit 3
trap 'git -C /repo worktree remove --force "$WT" 2>/dev/null; rm -rf /tmp/mv/ev_$TAG /tmp/mv/rp_$TAG' EXIT
if ! git -C "$WT" apply "$PATCH"; then echo "RESULT patch-does-not-apply"; exit 3; fi
if [ "$DEMO" != "-" ]; then
  DEMO=$(realpath "$DEMO")
  (cd /tmp && SYNRBL_ROOT="$WT" PYTHONPATH="$WT" timeout 900 /venv/bin/python "$DEMO" >/tmp/mv/demo_mut_$TAG.log 2>&1); DM=$?
  (cd /tmp && SYNRBL_ROOT=/repo PYTHONPATH=/repo timeout 900 /venv/bin/python "$DEMO" >/tmp/mv/demo_base_$TAG.log 2>&1); DB=$?
  echo "DEMO changed-tree exit=$DM ($(tail -1 /tmp/mv/demo_mut_$TAG.log | cut -c1-160))"
  echo "DEMO unchanged-tree exit=$DB ($(tail -1 /tmp/mv/demo_base_$TAG.log | cut -c1-160))"
  rm -f /tmp/mv/demo_mut_$TAG.log /tmp/mv/demo_base_$TAG.log
fi
if [ "$NOTESTS" != "--no-tests" ]; then
  T=$(cd "$WT" && PYTHONPATH="$WT" timeout 1800 /venv/bin/python -m pytest -q -p no:cacheprovider --timeout=900 \
     --deselect Test/SynMCSImputer/test_merge.py::TestCompounds::test_merge_with_charge \
     --deselect Test/SynUtils/test_chem_utils.py::TestNormalizeReaction::test_edge_case_1 \
     --deselect Test/SynVis/test_reaction_visualizer.py::TestReactionVisualizer::test_visualize_reaction 2>&1 | tail -1)
  echo "TESTS $T"
fi
for C in $(echo "$CHECKS" | tr ',' ' '); do
  OUT=$(cd /verif && SYNRBL_ROOT="$WT" VERIF_EVIDENCE_DIR=/tmp/mv/ev_$TAG VERIF_REPLAY_DIR=/tmp/mv/rp_$TAG timeout 3000 /venv/bin/python run_check.py "$C" --tier "$TIER" 2>&1); RC=$?
  NV=$(echo "$OUT" | grep -c '^VIOLATION')
  echo "CHECK $C tier=$TIER exit=$RC violation_lines=$NV"
  echo "$OUT" | grep -E '^  \[|HARNESS' | cut -c1-260 | head -4
done
