#!/venv/bin/python
"""Regenerates the detection matrix of DESIGN.md §7 (between the seeded-table markers) from
seeded/*/meta.json.  usage: tools/seeded_table.py [--check]"""
import glob, json, os, re, sys

ROOT = os.path.dirname(os.path.dirname(os.path.abspath(__file__)))
BEGIN, END = "<!-- seeded-table:begin -->", "<!-- seeded-table:end -->"


def order(sid):
    m = re.match(r"C(\d+)(?:-r(\d+))?-m(\d+)", sid)
    return (int(m.group(1)), int(m.group(2) or 1), int(m.group(3)))


def cell(t):
    return " ".join(str(t).replace("|", "/").split())


rows = ["| seeded change | what it does | caught by | how |", "|---|---|---|---|"]
ids = sorted((os.path.basename(os.path.dirname(p)) for p in glob.glob(ROOT + "/seeded/*/meta.json")), key=order)
for sid in ids:
    m = json.load(open(os.path.join(ROOT, "seeded", sid, "meta.json")))
    caught = ",".join(m.get("caught_by") or []) or ("n/a (neutralised)" if m.get("neutralised") else "**none**")
    rows.append("| {} | {} | {} | {} |".format(sid, cell(m.get("title") or "")[:80], caught, cell(m.get("note") or "")))
table = "\n".join(rows)
p = os.path.join(ROOT, "DESIGN.md")
s = open(p).read()
a, b = s.index(BEGIN) + len(BEGIN), s.index(END)
new = s[:a] + "\n" + table + "\n" + s[b:]
if "--check" in sys.argv:
    sys.exit(0 if new == s else 1)
open(p, "w").write(new)
print("rows", len(ids))
