#!/venv/bin/python
"""keep_mutant.py <src dir> <k> <seed id> <caught-by, comma separated or '-'> <note>
Copies a confirmed seeded change into /verif/seeded/<seed id>/ (patch.diff, demo.py, meta.json)."""
import json, os, shutil, sys
src, k, sid, caught, note = sys.argv[1:6]
dst = os.path.join("/verif/seeded", sid)
os.makedirs(dst, exist_ok=True)
shutil.copy(os.path.join(src, "mutant%s.diff" % k), os.path.join(dst, "patch.diff"))
shutil.copy(os.path.join(src, "demo%s.py" % k), os.path.join(dst, "demo.py"))
meta = json.load(open(os.path.join(src, "meta%s.json" % k)))
meta_out = {
    "property": meta.get("property"),
    "title": meta.get("title"),
    "files": meta.get("files"),
    "needs_to_manifest": meta.get("needs_to_manifest"),
    "author": "independent sub-agent given only the property text and a scratch worktree",
    "confirmed_by_owner": {
        "how": "tools/try_mutant.sh: patch applied to a fresh scratch worktree of /repo HEAD; demo exits 1 on the changed tree and 0 on /repo; pinned suite on the changed tree: 268 passed (3 known failures deselected)",
        "demo_cmd": "SYNRBL_ROOT=<tree> /venv/bin/python demo.py",
    },
    "caught_by": [c for c in caught.split(",") if c and c != "-"],
    "note": note,
}
json.dump(meta_out, open(os.path.join(dst, "meta.json"), "w"), indent=1)
print("kept", dst)
