#!/bin/bash
# Re-runs every kept seeded change against the checks that are recorded as catching it
# (quick tier, scratch worktree, output redirected).  Writes /verif/seeded/REGRESSION.txt.
cd /verif
OUT=/verif/seeded/REGRESSION.txt
: > $OUT.tmp
for d in seeded/*/; do
  id=$(basename $d)
  [ -f $d/patch.diff ] || continue
  checks=$(/venv/bin/python -c "import json;print(','.join(json.load(open('$d/meta.json'))['caught_by']))")
  res=$(tools/try_mutant.sh $d/patch.diff $d/demo.py "$checks" quick ${1:-} 2>&1 | grep -E "^DEMO|^TESTS|^CHECK" | tr '\n' ';' | cut -c1-600)
  echo "$id | $res" >> $OUT.tmp
done
mv $OUT.tmp $OUT
echo "tree: $(git -C /repo rev-parse --short HEAD)  verif: $(git -C /verif rev-parse --short HEAD)  $(date -u +%FT%TZ)" >> $OUT
