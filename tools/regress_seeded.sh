#!/bin/bash
# Re-runs every kept seeded change against the checks that are recorded as catching it
# (quick tier, scratch worktree, output redirected).  Writes /verif/seeded/REGRESSION.txt.
# usage: regress_seeded.sh [--no-tests] [--no-demo] [--only <regex on the seed id>] [--out <file>]
cd /verif
NT=""; ND=""; ONLY="."; OUT=/verif/seeded/REGRESSION.txt
while [ $# -gt 0 ]; do
  case "$1" in
    --no-tests) NT="--no-tests";;
    --no-demo) ND=1;;
    --only) ONLY="$2"; shift;;
    --out) OUT="$2"; shift;;
  esac
  shift
done
: > $OUT.tmp
for d in seeded/*/; do
  id=$(basename $d)
  [ -f $d/patch.diff ] || continue
  echo "$id" | grep -Eq -- "$ONLY" || continue
  checks=$(/venv/bin/python -c "import json;m=json.load(open('$d/meta.json'));print(','.join(m['caught_by']) or m['property'])")
  demo=$d/demo.py; [ -n "$ND" ] && demo="-"
  res=$(tools/try_mutant.sh $d/patch.diff $demo "$checks" quick $NT 2>&1 | grep -E "^DEMO|^TESTS|^CHECK|^RESULT" | tr '\n' ';' | cut -c1-600)
  echo "$id | $res" >> $OUT.tmp
done
mv $OUT.tmp $OUT
echo "tree: $(git -C /repo rev-parse --short HEAD)  verif: $(git -C /verif rev-parse --short HEAD)  $(date -u +%FT%TZ)" >> $OUT
