check("C07", "exploration",
      "Complete enumeration of stated finite input spaces (all corpus molecules, every element Z=1..118 in 13 forms, all generated molecules up to 3-5 heavy atoms, all tuples of a 40-molecule alphabet, all 135x135 composition-dict pairs) against an independent composition model; no sampling.",
      "Trusts RDKit's parser/valence model; molecules beyond the bounds are not covered.",
      "bounded-exhaustive input enumeration vs reference model (explicit-state generation of the molecule universe)", "DESIGN.md 4/C07")
