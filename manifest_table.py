check("C07", "exploration",
      "Complete enumeration of stated finite input spaces (all corpus molecules, every element Z=1..118 in 13 forms, all generated molecules up to 3-5 heavy atoms, all tuples of a 40-molecule alphabet, all 135x135 composition-dict pairs) against an independent composition model; no sampling.",
      "Trusts RDKit's parser/valence model; molecules beyond the bounds are not covered.",
      "bounded-exhaustive input enumeration vs reference model (explicit-state generation of the molecule universe)", "DESIGN.md 4/C07")
check("C01", "exploration",
      "Every reaction of complete finite universes (all L>>R with multisets of size 1..2 over a molecule alphabet covering each pipeline shortcut, hand-built seam reactions, heavy/ionic/isotopic/stereo/mapped family, thresholds x batch sizes; thorough: full alphabet + complete validation corpus) is run through the real Balancer.rebalance; every solved row is re-counted by an independent composition model.",
      "Trusts RDKit; worker count modelled by the controlled joblib seam; reactions outside the universes are not covered.",
      "bounded-exhaustive input enumeration through the real pipeline vs independent composition oracle", "DESIGN.md 4/C01")
check("C03", "exploration",
      "Complete Rxn(A01,2) universe, hand-built/special families under batch sizes {None,1,3}, every reaction/reversal with a product-side carbon surplus (thorough: complete corpus) through the real pipeline; each row checked: declined => reaction == input_reaction and non-empty issue, solved => one of three methods and empty issue, carbon surplus => declined.",
      "Default threshold 0; trusts RDKit for the independent carbon count.",
      "bounded-exhaustive input enumeration through the real pipeline, row oracle", "DESIGN.md 4/C03")
check("C04", "exploration",
      "Every curated balanced corpus reaction (quick: an arithmetic slice, thorough: all ~4.4k) with reversal, doubling and neighbour union, and all members of Rxn(A01,2) / an ion+heavy-element alphabet for the converse, through the real pipeline; balanced (by the independent model) <=> input-balanced, unchanged.",
      "Balance decided by an independent RDKit-based composition; closed-shell domain.",
      "bounded-exhaustive input enumeration through the real pipeline vs independent balance oracle", "DESIGN.md 4/C04")
check("C18", "exploration",
      "Every run over consecutive slices of the complete Rxn(A01,2) universe and the hand-built/special families under thresholds {0,0.5,1} x batch sizes {None,1,2,3}; the stats dict is compared with counts taken from the returned rows.",
      "Inputs are valid reactions; CLI .stats file covered by C05's CLI runs.",
      "bounded-exhaustive enumeration of runs, stats-vs-rows oracle", "DESIGN.md 4/C18")
check("C02", "exploration",
      "Every reaction with sides of 1..2 molecules over an alphabet containing the molecules whose text carries the pipeline's string markers (OO, [H][H], COO, [Na]Cl ...), every marker molecule in every position, hand-built/special families (thorough: full alphabet, complete mapped corpus) through the real pipeline; per side the multiset of input molecules must be contained in the output's, input_reaction must be the input's molecules, no atom map may survive.",
      "Molecule identity = RDKit canonical SMILES per fragment; closed-shell domain without free H/O placeholders.",
      "bounded-exhaustive input enumeration through the real pipeline, multiset-containment oracle", "DESIGN.md 4/C02")
check("C13", "exploration",
      "Complete (reaction, threshold) products: thresholds = {0,0.5,1} + every observed confidence and both of its floating-point neighbours (+-1e-3 in thorough); pipeline level (whole rebalance runs compared with the t=0 run) and predictor level (rows captured at ConfidencePredictor.predict from real runs, predict re-executed for the complete per-batch threshold set; thorough: whole corpus).",
      "The verdict is a comparison c >= t; every float boundary of every observed confidence is enumerated, other thresholds are covered by order.",
      "bounded-exhaustive enumeration of (input, threshold) incl. floating-point neighbours, differential oracle vs t=0", "DESIGN.md 4/C13")
check("C14", "exploration",
      "Every reaction of Rxn(A14,2) (quick: 8-molecule alphabet + all one-molecule-per-side reactions of the 18-molecule alphabet) with a composition-determined baseline is re-run in every member of its finite spelling/order family (rooted, all atom permutations <=4 atoms, kekulised, explicit-H, three atom-mapped spellings, all side permutations); same verdict and same added molecules up to the redox template vocabulary.",
      "'All equivalent spellings' = the finite Spell family; variants run as one batch (batch independence is C06).",
      "bounded-exhaustive enumeration of spelling/order families, differential oracle vs canonical spelling", "DESIGN.md 4/C14")
check("C19", "model_checking",
      "Explicit-state BFS over the ordered record list of a RuleImputeManager: alphabet of 8 adds (valid, invalid, same formula, same SMILES, charged, salt, heavy, empty), all 64 ordered bulk pairs and 8 removes; depth 3 (thorough 4) from empty, depth 1 (thorough 2) from both shipped databases and from a DataFrame source; every transition runs the real method and is compared with a plain-list model, the invariant is evaluated in every state, every state's discovering history is replayed on a single object.",
      "State = record list only (validated by the single-object replays); SMILES validity/composition are RDKit's. Shipped-database duplicates are recorded known findings.",
      "explicit-state breadth-first search over real objects with a reference model (step oracle + state invariant)", "DESIGN.md 4/C19")
check("C12", "model_checking",
      "Explicit-state BFS over the cache directory (file -> bytes): all crash-free histories of <= 3 runs over 42 run operations (thresholds x inputs x batch sizes, two-column rows under two column configurations) plus crash operations: every run from the empty cache (thorough: also from depth-1 states) killed after every prefix of its recorded file effects and at byte positions inside each written file (quick every 512th + first/last 3; thorough every 16th, every byte for 3 runs), each crash state followed by every run. Every run transition executes the real rebalance on a materialised directory and is compared with the uncached run.",
      "Balancer.__run_pipeline memoised per (configuration, batch) behind the real cache logic; kill = prefix of the recorded file effects (file-effect recorder wraps open/os.replace/rename/remove); persistent state = cache directory only.",
      "explicit-state breadth-first search over persistent state with crash-point (torn write) enumeration, differential oracle vs uncached run", "DESIGN.md 4/C12")
check("C05", "exploration",
      "Complete enumeration of row sequences over an alphabet of 2 valid and 11 malformed/missing reaction values (unparsable text, valence and kekulisation errors, no or several separators, empty strings/sides, None/NaN/absent) (quick: length <= 2 for all sources, length 3 over a 6-symbol sub-alphabet; thorough: length <= 3, <= 4 for list-of-str) x every batch layout (None, 1..n+1) x sources (list of str, list of dict, CSV Dataset, JSON Dataset) and the command line (argparse entry in process, plus real `python -m synrbl run` subprocess cases) with --out-columns; each output row must sit at its input's position, describe that input, and valid rows must equal their alone-run result.",
      "Explicit refusals (ValueError for non-str/dict list elements; CLI rejecting a file whose first row is no reaction, nothing written) are accepted; longer sequences and other malformed shapes are out of bound.",
      "bounded-exhaustive enumeration of operation (row) sequences x batch layouts x source forms, positional oracle", "DESIGN.md 4/C05")
check("C06", "model_checking",
      "(a) every ordered sub-batch of size 1..2 and a 128-triple cyclic covering (thorough: all 720 triples) of a 16-reaction base set (one per pipeline path or collision class) and the 17-reaction set under every batch size, rows vs alone-run rows, stats additive and partition-independent; (b) stateless deviation-bounded exploration of the controlled joblib seam: for 3 batches every Parallel call x every non-default task order (bound 1; thorough 2) x isolation inline/per-task (thorough + per-chunk pickling); (c) conformance: the same batch through the real joblib/loky for n_jobs 1,2 (thorough 1,2,4,16) must equal the controlled default schedule; (d) repeated runs on one instance.",
      "joblib is modelled by ControlledParallel (submission-order results, chosen execution order, inline or pickled arguments) and bound to the implementation by the real-pool conformance runs; wall-clock timeouts excluded here (C11).",
      "stateless deviation-bounded schedule exploration over owned choice points + bounded-exhaustive sub-batch enumeration, differential oracle vs alone-run", "DESIGN.md 4/C06")
check("C10", "model_checking",
      "(i) every result table of 3 search conditions x 1 reaction over 10 entry shapes and x 2 reactions over 7 shapes (thorough: 10 shapes = 1M tables, and 3-reaction tables over 4 shapes) through ExtractMCS.get_largest_condition against an argmax reference (identity, id, order, maximality of every retained entry); (ii) MCSSearch.find observed inside real rebalance runs for every ordered sub-batch of size 1..2 + covering triples (thorough: all triples, complete corpus) of 10 MCS-bound and 2 solved reactions: molecule list = multiset of the carbon-richer side, one pattern per molecule, each pattern contained in its molecule, record id = row id, record = alone-run record; plus every single (thorough: double) task-order deviation at the stage's Parallel calls for 3 batches.",
      "'The reaction sent to the MCS stage' = the rows handed to MCSSearch.find by the real pipeline; containment decided by RDKit's matcher; scheduler modelled by ControlledParallel (bound by C06's conformance runs).",
      "exhaustive table enumeration vs argmax reference + deviation-bounded schedule exploration over owned choice points", "DESIGN.md 4/C10")
check("C09", "exploration",
      "Every (molecule, acyclic single bond) of complete generated universes (and, thorough, of all corpus molecules) is cut, H-capped and merged back through the real merge() exactly as the pipeline supplies fragments (both compound orders, every rooted renumbering for <= 4 atoms); single-fragment completions against independently built expected products; all ordered fragment pairs of a 3-atom universe and a rule-targeted library under the general invariants (sanitises, no open boundary, carbon and heavy atoms conserved incl. expand-rule compounds, reported rule names exist).",
      "Fragments are built by cut-and-cap with RDKit; comparison modulo charge-separated spelling for 67 sanitiser-rewritten cases; molecules beyond the universes not covered.",
      "bounded-exhaustive input enumeration (cut/merge round trips) vs independently built expected products", "DESIGN.md 4/C09")
check("C11", "fault_enumeration",
      "Stateless deviation-bounded exploration of the fault choice points of the MCS stage on the real pipeline: complete 2^J subsets of thread-pool jobs hit by a timeout (J=8 for a 3-row batch; thorough also J=12 batches and per-task pickling isolation), all patterns of <= 1 (thorough 2) faults of any kind (timeouts, cancelled / raising RDKit searches), every single abandoned worker with its record writes landing at every later scheduling point (thorough: every split over two points, and every call event of the stage's modules); each execution judged against the fault-free run (no row lost, unaffected rows identical, affected rows solved+balanced or declined unchanged with a reason). Single-timeout patterns are replayed against the real ThreadPool with a real 3 s sleep.",
      "Abandoned worker = sequence of item assignments on its record, landing atomically at scheduling points; wall-clock timeouts modelled by the seam's timeout alternative and bound to the real pool by the conformance runs.",
      "stateless deviation-bounded fault/schedule exploration over owned choice points (thread-pool outcomes, RDKit faults, zombie write landings), differential oracle vs fault-free run", "DESIGN.md 4/C11")
check("C08", "exploration",
      "Both shipped rule databases in full (recorded composition vs independent composition); every imbalance vector with <= 3 atoms (thorough <= 5) over the database's element set x Q in -2..2, H-rich vectors, and sums of up to 2 (thorough 3) database compounds through SyntheticRuleMatcher.match for every select/ranking, SyntheticRuleImputer.single_impute on both sides and RuleConstraint.fit with the pipeline's ban list; every rule-based row of a complete small-reaction universe through the real pipeline.",
      "Compositions by RDKit; vectors beyond the bounds not covered; redox-template rows are skipped at pipeline level.",
      "bounded-exhaustive enumeration of imbalance vectors vs independent composition sums", "DESIGN.md 4/C08")
check("C15", "exploration",
      "All bracket-atom forms (118 elements x isotope x chirality x H0..6 x charge +-0..3 x map forms) in 23 (thorough 34) bonding environments that RDKit accepts as closed-shell, aromatic bracket atoms in ring environments, explicit-bond spellings, and every corpus reaction molecule by molecule: the molecule after remove_atom_mapping must equal the molecule with maps cleared and no map may survive. 19 (element, H-count) hypervalent-hydride classes are recorded open findings.",
      "Molecule identity = RDKit canonical SMILES at its re-read fixpoint; closed-shell domain.",
      "bounded-exhaustive enumeration of bracket-atom forms vs RDKit map-clearing reference", "DESIGN.md 4/C15")
check("C16", "exploration",
      "Every (molecule, atom, pattern) triple over complete generated universes (<= 4-5 heavy atoms over C,N,O,S), a ring library and a corpus slice (thorough: whole corpus, U(CNOS,5)) x all 31 pattern/anti-pattern graphs: pattern_match verdict and returned mapping against a brute-force injective sub-graph matcher (cross-checked with RDKit and with literal assignment enumeration on small molecules); is_functional_group under every atom permutation (all n! for <= 4 atoms, rooted family above) for every group.",
      "Pattern semantics: atoms by symbol, bonds by RDKit bond type, non-induced; stated in the evidence rule.",
      "bounded-exhaustive enumeration vs brute-force reference matcher + renumbering (metamorphic) invariance", "DESIGN.md 4/C16")
check("C17", "exploration",
      "All reactions of Rxn(A17,2) over a 15-molecule alphabet with anagram isomer pairs, aromatic/saturated pairs, aromatic/kekule pairs and ions x every permutation of each side x spelling profiles (thorough: 3-molecule sides): idempotence, normal form equal to the base, similarity exactly 1 for the three methods; symmetry and range over all ordered pairs of a fixed 60-reaction slice.",
      "Stereo-free inputs; 'all equivalent spellings' = the finite Spell family.",
      "bounded-exhaustive enumeration of permutations/spellings, metamorphic oracle", "DESIGN.md 4/C17")
check("C20", "exploration",
      "MoleculeStandardizer on every rooted spelling of U({C,O},5) and U({C,N,O},4), [O-] / [Na+].[O-] / [Na]O variants of every hydroxyl, gem-diol / hemiketal / enol series, all ordered pairs of 12 molecules as mixtures (thorough: U({C,O},6), U({C,N,O},5), whole corpus): no exception, parsable output that is not an error text, composition and charge conserved, idempotent.",
      "Compositions by RDKit; fgutils.FGQuery.get memoised per SMILES (validated against fresh calls).",
      "bounded-exhaustive input enumeration vs independent composition oracle + idempotence", "DESIGN.md 4/C20")
