#!/opt/veriftools/pyvenv/bin/python
import json, sys, glob, jsonschema
schema = json.load(open("/root/.vp/EVIDENCE.schema.json"))
bad = 0
for f in sorted(glob.glob("/verif/evidence/*.json")):
    try:
        jsonschema.validate(json.load(open(f)), schema)
        print("ok ", f)
    except Exception as e:
        bad += 1
        print("BAD", f, str(e)[:300])
sys.exit(1 if bad else 0)
