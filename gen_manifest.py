#!/opt/veriftools/pyvenv/bin/python
"""Generates MANIFEST.json from the table below (kept in one place so the manifest
stays valid and consistent)."""
import json, os
V = "/verif"
PY = "/venv/bin/python"
BASELINE = "cd /repo && env -u SYNRBL_VERIF /venv/bin/python -m pytest -ra -q -p no:cacheprovider --timeout=900 --continue-on-collection-errors"

CHECKS = {}
PENDING = {}

def check(pid, category, text, note, technique, design_ref):
    CHECKS[pid] = dict(category=category, text=text, note=note, technique=technique, design_ref=design_ref)

exec(open(os.path.join(V, "manifest_table.py")).read())

props = [json.loads(l) for l in open(os.path.join(V, "properties.jsonl"))]
man = {
    "version": 1,
    "setup_cmd": "sh /verif/setup.sh",
    "hooks": {
        "guard": "SYNRBL_VERIF",
        "enable": "no source hooks: all seams are installed from /verif at import time (mc/seams.py); checks export SYNRBL_VERIF=1 for uniformity",
        "baseline_off_cmd": BASELINE,
        "source_commits": [],
        "add_only": True,
    },
    "engines": [
        {"name": "E1", "path": "/verif/mc/universe.py", "kind_free_text": "bounded-exhaustive input enumeration against reference models",
         "serves_properties": sorted(p for p, c in CHECKS.items() if c["category"] == "exploration")},
        {"name": "E2/E3", "path": "/verif/mc/seams.py", "kind_free_text": "explicit-state BFS over histories / deviation-bounded stateless exploration over owned choice points",
         "serves_properties": sorted(p for p, c in CHECKS.items() if c["category"] != "exploration")},
    ],
    "checks": [],
    "not_applicable": [],
    "notes": "See DESIGN.md. exit 2 + HARNESS-ERROR = harness failure (never a VIOLATION).",
}
for p in props:
    pid = p["id"]
    if pid in CHECKS:
        c = CHECKS[pid]
        man["checks"].append({
            "property_id": pid,
            "quick_cmd": "{} {}/run_check.py {} --tier quick".format(PY, V, pid),
            "thorough_cmd": "{} {}/run_check.py {} --tier thorough".format(PY, V, pid),
            "evidence_file": "{}/evidence/{}.json".format(V, pid),
            "replay_cmd_template": "{} {}/run_check.py --replay {{path}}".format(PY, V),
            "engine": "E1" if c["category"] == "exploration" else "E2/E3",
            "level_claimed": {"category": c["category"], "text": c["text"], "design_ref": c["design_ref"]},
            "level_note": c["note"],
            "technique": c["technique"],
        })
    else:
        man["not_applicable"].append({"property_id": pid, "reason": PENDING.get(pid, "check not built yet (model checking applies; see DESIGN.md section 4) - not claimed until its check is green")})
json.dump(man, open(os.path.join(V, "MANIFEST.json"), "w"), indent=1)
import jsonschema
jsonschema.validate(man, json.load(open("/root/.vp/MANIFEST.schema.json")))
print("MANIFEST ok:", len(man["checks"]), "checks,", len(man["not_applicable"]), "not claimed")
