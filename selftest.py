#!/venv/bin/python
"""Harness self-test (run by setup_cmd): seams bound, controller replay deterministic,
MANIFEST valid.  Exit 0 / 2."""

import json
import os
import sys

VERIF = os.path.dirname(os.path.abspath(__file__))
sys.path.insert(0, VERIF)

from mc import boot  # noqa: E402


def main():
    boot.ensure_env()
    boot.boot(controlled=True)
    from mc import seams

    import synrbl.SynProcessor.rsmi_decomposer as d

    assert d.Parallel is seams.ControlledParallel, "Parallel seam not bound"
    import multiprocessing.pool as mpp

    assert mpp.ThreadPool is seams.ControlledThreadPool, "ThreadPool seam not bound"

    # a controlled pipeline run replays identically, deviations included
    from synrbl import Balancer

    rxns = ["CC(=O)OCC>>CC(=O)O", "CCO>>CC=O", "CC(=O)O.CCO>>CC(=O)OCC.O"]

    def run(dev):
        ctl = seams.Controller(deviations=dev, active=("order", "pool"))
        with seams.controlled(ctl):
            rows = Balancer(n_jobs=1).rebalance(list(rxns), output_dict=True)
        return json.dumps(rows, sort_keys=True, default=str), [p.as_list() for p in ctl.points]

    a, pts = run({})
    b, pts2 = run({})
    assert a == b and pts == pts2, "default schedule does not replay identically"
    pool_pts = [p for p in pts if p[1] == "pool"]
    assert pool_pts, "no thread-pool choice point met (seam dead?)"
    p = pool_pts[0]
    c, _ = run({p[0]: (p[2], 1)})
    c2, _ = run({p[0]: (p[2], 1)})
    assert c == c2, "deviated schedule does not replay identically"
    try:
        run({p[0]: ("wrong-label", 1)})
    except boot.HarnessError:
        pass
    else:
        raise AssertionError("replay divergence not detected")

    # manifest validates
    try:
        import jsonschema

        with open("/root/.vp/MANIFEST.schema.json") as f:
            schema = json.load(f)
        with open(os.path.join(VERIF, "MANIFEST.json")) as f:
            jsonschema.validate(json.load(f), schema)
    except ImportError:
        pass
    except FileNotFoundError:
        pass
    print("selftest ok: {} choice points, {} pool points".format(len(pts), len(pool_pts)))
    return 0


if __name__ == "__main__":
    try:
        sys.exit(main())
    except (Exception, boot.HarnessError) as e:
        import traceback

        traceback.print_exc()
        print("HARNESS-ERROR selftest: {}".format(e))
        sys.exit(2)
