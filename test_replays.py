"""Plain pytest replay of every violation file under replays/ (or $VERIF_REPLAY_DIR), without the
explorer: each file holds one minimal case (input list / history / schedule / configuration); the test
re-executes exactly that case against the tree (default /repo, or $SYNRBL_ROOT) in a fresh interpreter
and fails when the violation shows again.

    /venv/bin/python -m pytest -q -p no:cacheprovider test_replays.py
"""
import glob
import os
import subprocess
import sys

import pytest

HERE = os.path.dirname(os.path.abspath(__file__))
ROOT = os.environ.get("VERIF_REPLAY_DIR") or os.path.join(HERE, "replays")
FILES = sorted(glob.glob(os.path.join(ROOT, "*", "*.json")))


@pytest.mark.parametrize("path", FILES or [None], ids=lambda p: "none" if p is None else os.path.relpath(p, ROOT))
def test_replay(path):
    if path is None:
        pytest.skip("no replay files: no check has reported a violation")
    import json

    sys.path.insert(0, HERE)
    from mc import report

    with open(path) as f:
        body = json.load(f)
    with open(os.path.join(HERE, "known_findings.json")) as f:
        known = json.load(f)["findings"]
    if report.open_finding(body["property"], body.get("key"), known):
        pytest.xfail("recorded open known finding (known_findings.json): expected to reproduce")
    p = subprocess.run([sys.executable, os.path.join(HERE, "run_check.py"), "--replay", path],
                       capture_output=True, text=True, timeout=3600, cwd=HERE)
    assert p.returncode != 2, "harness error while replaying:\n" + p.stdout[-2000:] + p.stderr[-2000:]
    assert "REPLAY-FAILS" not in p.stdout and p.returncode == 0, p.stdout[-3000:]
