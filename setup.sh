#!/bin/sh
# Offline setup: pre-compute the molecule universes (RDKit only) and self-test the harness.
set -e
cd /verif
mkdir -p build evidence replays
/venv/bin/python - <<'PY'
import sys
sys.path.insert(0, "/verif")
from rdkit import RDLogger
RDLogger.DisableLog("rdApp.*")
from mc import universe as u
for E, n, r in [
    (["C", "N", "O"], 4, True),
    (["C", "N", "O"], 5, True),
    (["C", "N", "O", "S", "P", "Cl"], 4, False),
    (["C", "N", "O", "S"], 4, True),
    (["C", "O"], 5, True),
    (["C", "N", "O", "S", "P", "F", "Cl", "Br", "I", "B", "Si"], 3, True),
]:
    print("U", "".join(E), n, len(u.U(E, n, r)))
print("corpus molecules", len(u.corpus_molecules()))
PY
/venv/bin/python /verif/selftest.py
