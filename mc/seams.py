"""Library-level seams that let the harness own SynRBL's nondeterminism.

* joblib.Parallel           -> ControlledParallel   (task order, isolation)
* multiprocessing.pool.ThreadPool -> ControlledThreadPool (wait outcome: complete /
                               timeout-never / timeout-zombie)
* rdFMCS.FindMCS, rdRascalMCES.FindMCES -> fault-injecting wrappers
* scheduling points         -> every seam crossing (and, optionally, every call of a
                               function defined under <root>/synrbl) where a pending
                               write of an abandoned ("zombie") worker may land.

All choices go through one `Controller` per execution.  A controller replays a sparse
set of deviations {point index: alternative} and takes alternative 0 (the default
environment answer) everywhere else, recording every choice point it meets.
"""

import itertools
import multiprocessing
import multiprocessing.pool
import os
import sys

from mc.boot import HarnessError, ROOT

_REAL = {}
_CTL = None
_INSTALLED = False


# --------------------------------------------------------------------------- controller


class Point:
    __slots__ = ("index", "cls", "label", "n", "chosen")

    def __init__(self, index, cls, label, n, chosen):
        self.index, self.cls, self.label, self.n, self.chosen = (
            index,
            cls,
            label,
            n,
            chosen,
        )

    def as_list(self):
        return [self.index, self.cls, self.label, self.n, self.chosen]


class Controller:
    """One execution's source of environment answers.

    active: set of choice classes that are recorded/deviated:
        'order'  task order of a Parallel call
        'pool'   outcome of a thread-pool wait
        'rdkit'  outcome of an RDKit search call
        'land'   number of pending zombie writes that land at a scheduling point
        'poolnew' a ThreadPool whose worker thread can not be started
        'pfail'  a joblib.Parallel call that fails as a whole (a worker process died)
    deviations: {point index: (label, alternative)}
    isolation: 'inline' | 'task' | 'chunk'
    fine_points: also treat calls of functions under <root>/synrbl as scheduling points
                 while zombie writes are pending.
    """

    def __init__(
        self,
        deviations=None,
        active=(),
        isolation="inline",
        fine_points=False,
        pool_alts=("complete", "timeout", "zombie"),
        rdkit_alts=("normal", "cancel", "raise"),
        fine_files=None,
    ):
        self.deviations = {int(k): tuple(v) for k, v in (deviations or {}).items()}
        self.active = set(active)
        self.isolation = isolation
        self.fine_points = fine_points
        self.fine_files = tuple(fine_files) if fine_files else None
        self.pool_alts = tuple(pool_alts)
        self.rdkit_alts = tuple(rdkit_alts)
        self.points = []
        self.pending = []  # [(target dict, key, value)] zombie writes not yet landed
        self.sched_count = 0
        self.counters = {}
        self.parallel_calls = 0
        self.log = []  # human-readable trace of seam crossings
        self.job_stack = []  # labels of the thread-pool jobs currently executing
        self._in_choice = False

    # -- choice points
    def choose(self, cls, label, n):
        if cls not in self.active or n <= 1:
            return 0
        idx = len(self.points)
        alt = 0
        if idx in self.deviations:
            want_label, alt = self.deviations[idx]
            if want_label != label:
                raise HarnessError(
                    "replay divergence at point {}: expected {!r}, met {!r}".format(
                        idx, want_label, label
                    )
                )
            if not (0 <= alt < n):
                raise HarnessError(
                    "replay divergence at point {}: alternative {} of {}".format(
                        idx, alt, n
                    )
                )
        self.points.append(Point(idx, cls, label, n, alt))
        return alt

    def count(self, name):
        self.counters[name] = self.counters.get(name, 0) + 1
        return self.counters[name] - 1

    def unused_deviations(self):
        return [i for i in self.deviations if i >= len(self.points)]

    # -- scheduling points (where zombie writes may land)
    def sched_point(self, label):
        self.sched_count += 1
        if not self.pending or self._in_choice:
            return
        self._in_choice = True
        try:
            n = self.choose("land", label, len(self.pending) + 1)
            for _ in range(n):
                target, key, value = self.pending.pop(0)
                target[key] = value
                self.log.append("land {}={!r} at {}".format(key, value, label))
            if not self.pending:
                self._profile(False)
        finally:
            self._in_choice = False

    def add_zombie_writes(self, writes):
        self.pending.extend(writes)
        if self.pending and self.fine_points and "land" in self.active:
            self._profile(True)

    def _profile(self, on):
        if not on:
            sys.setprofile(None)
            return
        prefix = os.path.join(ROOT, "synrbl") + os.sep
        ctl = self

        def prof(frame, event, arg):
            if event == "call":
                co = frame.f_code
                if co.co_filename.startswith(prefix) and (
                    ctl.fine_files is None or co.co_filename.endswith(ctl.fine_files)
                ):
                    ctl.sched_point("call:" + co.co_name)

        sys.setprofile(prof)

    def finish(self):
        sys.setprofile(None)
        left = self.unused_deviations()
        if left:
            raise HarnessError(
                "replay divergence: deviations {} were never reached ({} points)".format(
                    left, len(self.points)
                )
            )


class _Default(Controller):
    """Controller used outside explorations: every default answer, nothing recorded."""

    def __init__(self):
        super().__init__()

    def choose(self, cls, label, n):
        return 0


_DEFAULT = None


def current():
    global _DEFAULT
    if _CTL is not None:
        return _CTL
    if _DEFAULT is None:
        _DEFAULT = _Default()
    return _DEFAULT


class controlled:
    """with controlled(Controller(...)) as ctl: run the code under test"""

    def __init__(self, ctl):
        self.ctl = ctl

    def __enter__(self):
        global _CTL
        if _CTL is not None:
            raise HarnessError("nested controllers")
        _CTL = self.ctl
        return self.ctl

    def __exit__(self, et, ev, tb):
        global _CTL
        _CTL = None
        sys.setprofile(None)
        if et is None:
            self.ctl.finish()
        return False


# --------------------------------------------------------------------------- joblib


def order_menu(n):
    """The finite family of task orders offered for a Parallel call with n tasks.

    n <= 3: all n! permutations; otherwise identity, reversal, both rotations and every
    adjacent transposition.  Alternative 0 is always submission order.
    """
    ident = tuple(range(n))
    if n <= 3:
        return list(itertools.permutations(ident))
    menu = [ident, ident[::-1], ident[1:] + ident[:1], ident[-1:] + ident[:-1]]
    for i in range(n - 1):
        p = list(ident)
        p[i], p[i + 1] = p[i + 1], p[i]
        menu.append(tuple(p))
    out = []
    for p in menu:
        if p not in out:
            out.append(p)
    return out


def _site(depth=2):
    f = sys._getframe(depth)
    fn = f.f_code.co_filename
    if fn.startswith(ROOT):
        fn = os.path.relpath(fn, ROOT)
    return "{}:{}".format(fn, f.f_code.co_name)


def _roundtrip(obj):
    import cloudpickle
    import pickle

    return pickle.loads(cloudpickle.dumps(obj))


class ControlledParallel:
    """Model of joblib.Parallel: results in submission order; the controller decides the
    execution order of the tasks and what they share with the caller."""

    def __init__(self, n_jobs=None, verbose=0, return_as="list", **kwargs):
        self.n_jobs = n_jobs
        self.return_as = return_as

    def __call__(self, iterable):
        ctl = current()
        tasks = list(iterable)
        site = _site()
        ctl.parallel_calls += 1
        call_no = ctl.count("parallel:" + site)
        label = "{}#{}[{}]".format(site, call_no, len(tasks))
        ctl.sched_point("parallel-begin:" + label)
        # a worker of a process pool can die (OOM kill, TerminatedWorkerError): the call fails as a whole
        if ctl.choose("pfail", label, 2) == 1:
            raise RuntimeError("a worker process of this Parallel call terminated unexpectedly (injected)")
        menu = order_menu(len(tasks))
        order = menu[ctl.choose("order", label, len(menu))]
        iso = ctl.isolation
        if iso == "chunk":
            tasks = _roundtrip(tasks)
        results = [None] * len(tasks)
        for i in order:
            f, a, k = tasks[i]
            if iso == "task":
                f, a, k = _roundtrip((f, a, k))
            ctl.sched_point("task:{}:{}".format(label, i))
            r = f(*a, **k)
            if iso == "task":
                r = _roundtrip(r)
            results[i] = r
        if iso == "chunk":
            results = _roundtrip(results)
        ctl.sched_point("parallel-end:" + label)
        if self.return_as == "generator_unordered":
            # joblib yields results as they complete: completion order = execution order here
            return iter([results[i] for i in order])
        if self.return_as == "generator":
            return iter(results)
        return results

    def __enter__(self):
        return self

    def __exit__(self, *a):
        return False


# --------------------------------------------------------------------------- thread pool


class _RecordingDict(dict):
    """What an abandoned worker sees of the record it was given: a private copy that
    records item assignments.  Any other mutation is a harness error (the zombie model
    only covers item assignment)."""

    def __init__(self, real):
        super().__init__(real)
        self._real = real
        self._writes = []

    def __setitem__(self, k, v):
        self._writes.append((self._real, k, v))
        super().__setitem__(k, v)

    def _bad(self, *a, **k):
        raise HarnessError("zombie performs a mutation the model does not cover")

    update = pop = popitem = clear = setdefault = __delitem__ = _bad


class _AsyncResult:
    def __init__(self, func, args, kwds, pool=None):
        self.func, self.args, self.kwds = func, tuple(args), dict(kwds or {})
        self.pool = pool

    def _label(self):
        ctl = current()
        name = getattr(self.func, "__name__", "job")
        k = ctl.count("pool:" + name)
        extra = ""
        if self.args and isinstance(self.args[0], dict) and "id" in self.args[0]:
            extra = "@id={}".format(self.args[0]["id"])
        if "method" in self.kwds:
            extra += ",{}{}".format(
                self.kwds.get("method"),
                "" if self.kwds.get("RingMatchesRingOnly", True) else "-noring",
            )
        if self.args and isinstance(self.args[0], (list, tuple)) and self.args[0]:
            # fragment analysis: identify the reaction by the molecules it was given
            try:
                from rdkit import Chem

                smi = sorted(Chem.MolToSmiles(m) for m in self.args[0])
                extra += "@mols=" + ".".join(smi)
            except Exception:
                pass
        return "{}#{}{}".format(name, k, extra)

    def get(self, timeout=None):
        ctl = current()
        label = self._label()
        ctl.sched_point("pool-get:" + label)
        pool = self.pool
        if pool is not None and pool.abandoned >= pool.workers:
            # every worker thread of THIS pool object is still occupied by a job that was
            # abandoned after a timeout: a job submitted to it cannot start
            ctl.log.append("pool {} -> starved (all workers of its pool are abandoned)".format(label))
            if timeout is None:
                raise HarnessError("blocking wait on a thread pool whose workers are all abandoned: " + label)
            raise multiprocessing.TimeoutError()
        alts = ctl.pool_alts if timeout is not None else ("complete",)
        alt = alts[ctl.choose("pool", label, len(alts))]
        ctl.log.append("pool {} -> {}".format(label, alt))
        if alt == "timeout" and pool is not None:
            pool.abandoned += 1  # the job never finishes within the run
        if alt == "complete":
            ctl.job_stack.append(label)
            try:
                return self.func(*self.args, **self.kwds)
            finally:
                ctl.job_stack.pop()
        if alt == "zombie":
            args = list(self.args)
            proxies = []
            for i, a in enumerate(args):
                if type(a) is dict and i > 0:
                    args[i] = _RecordingDict(a)
                    proxies.append(args[i])
            try:
                self.func(*args, **self.kwds)
            except HarnessError:
                raise
            except Exception:
                pass  # an exception in an abandoned thread is never seen
            writes = []
            for p in proxies:
                writes.extend(p._writes)
            ctl.add_zombie_writes(writes)
        raise multiprocessing.TimeoutError()

    def wait(self, timeout=None):
        pass

    def ready(self):
        return True


class ControlledThreadPool:
    """Model of multiprocessing.pool.ThreadPool: `workers` threads; a job whose wait timed
    out keeps its worker (terminate() does not stop a running thread)."""

    def __init__(self, processes=None, *a, **k):
        ctl = current()
        # starting the worker thread(s) can fail ("can't start new thread" under resource
        # exhaustion): an environment answer like any other
        label = "ThreadPool#{}<{}>".format(ctl.count("poolnew"), _site())
        if ctl.choose("poolnew", label, 2) == 1:
            raise RuntimeError("can't start new thread (injected)")
        self.workers = processes if processes else (os.cpu_count() or 1)
        self.abandoned = 0

    def apply_async(self, func, args=(), kwds=None, callback=None, error_callback=None):
        return _AsyncResult(func, args, kwds, pool=self)

    def terminate(self):
        pass

    close = join = terminate

    def __enter__(self):
        return self

    def __exit__(self, *a):
        return False


# --------------------------------------------------------------------------- RDKit


class _CancelledMCS:
    canceled = True
    numAtoms = 0
    numBonds = 0
    smartsString = ""
    queryMol = None


def _wrap_rdkit():
    from rdkit.Chem import rdFMCS, rdRascalMCES

    real_mcs = _REAL.setdefault("FindMCS", rdFMCS.FindMCS)
    real_mces = _REAL.setdefault("FindMCES", rdRascalMCES.FindMCES)

    def FindMCS(*a, **k):
        ctl = current()
        label = "FindMCS#{}<{}>".format(ctl.count("rdkit:FindMCS"), ctl.job_stack[-1] if ctl.job_stack else "")
        alt = ctl.rdkit_alts[ctl.choose("rdkit", label, len(ctl.rdkit_alts))]
        if alt == "cancel":
            return _CancelledMCS()
        if alt == "raise":
            raise RuntimeError("injected FindMCS failure")
        return real_mcs(*a, **k)

    def FindMCES(*a, **k):
        ctl = current()
        label = "FindMCES#{}<{}>".format(ctl.count("rdkit:FindMCES"), ctl.job_stack[-1] if ctl.job_stack else "")
        alt = ctl.rdkit_alts[ctl.choose("rdkit", label, len(ctl.rdkit_alts))]
        if alt == "cancel":
            return [object()]  # a result without atom matches
        if alt == "raise":
            raise RuntimeError("injected FindMCES failure")
        return real_mces(*a, **k)

    rdFMCS.FindMCS = FindMCS
    rdRascalMCES.FindMCES = FindMCES


# --------------------------------------------------------------------------- install


def install(controlled=True):
    """Must run before `synrbl` is imported (its modules bind joblib.Parallel by name)."""
    global _INSTALLED
    if _INSTALLED:
        return
    if "synrbl" in sys.modules:
        raise HarnessError("seams must be installed before synrbl is imported")
    # third-party users of joblib bind the real class first
    import sklearn  # noqa: F401
    import xgboost  # noqa: F401

    try:
        import imblearn  # noqa: F401
    except Exception:
        pass
    import joblib

    _REAL["Parallel"] = joblib.Parallel
    _REAL["ThreadPool"] = multiprocessing.pool.ThreadPool
    if controlled:
        joblib.Parallel = ControlledParallel
        try:
            import synrbl  # noqa: F401
            import synrbl.balancing  # noqa: F401
            import synrbl.SynCmd.cmd_run  # noqa: F401
            import synrbl.SynRuleImputer.auto_extract_rules  # noqa: F401
        finally:
            joblib.Parallel = _REAL["Parallel"]
        multiprocessing.pool.ThreadPool = ControlledThreadPool
        _wrap_rdkit()
        _memoise_fgquery()
        _check_bound()
    _INSTALLED = True


def _check_bound():
    """Every synrbl module that names Parallel must have bound the controlled class."""
    bad = []
    for name, mod in list(sys.modules.items()):
        if name.startswith("synrbl") and mod is not None:
            p = getattr(mod, "Parallel", None)
            if p is not None and p is not ControlledParallel:
                bad.append(name)
    if bad:
        raise HarnessError("modules with an uncontrolled Parallel: {}".format(bad))


_FG_MEMO = {}
_FG_CHECKED = [0]


def _memoise_fgquery():
    """fgutils.FGQuery.get is pure and dominates run time; memoise it per SMILES (for
    default-configured instances only) and validate the memo against a fresh call for
    the first 20 hits."""
    try:
        from fgutils import FGQuery
    except Exception:
        return
    real = _REAL.setdefault("FGQuery.get", FGQuery.get)
    real_init = _REAL.setdefault("FGQuery.__init__", FGQuery.__init__)

    def __init__(self, *a, **k):
        real_init(self, *a, **k)
        self._vt_default = not a and not k

    def get(self, value):
        if not getattr(self, "_vt_default", False) or not isinstance(value, str):
            return real(self, value)
        if value in _FG_MEMO:
            val = _FG_MEMO[value]
            if _FG_CHECKED[0] < 20:
                _FG_CHECKED[0] += 1
                if real(self, value) != val:
                    raise HarnessError("FGQuery.get is not pure for " + value)
        else:
            val = real(self, value)
            _FG_MEMO[value] = val
        return [(name, list(idx)) for name, idx in val]

    FGQuery.__init__ = __init__
    FGQuery.get = get


def real_parallel():
    return _REAL["Parallel"]
