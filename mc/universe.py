"""Complete, deterministic generators for the bounded input spaces.

U(E, n)   all connected closed-shell molecular graphs with <= n heavy atoms over the
          element alphabet E, generated as an explicit-state BFS over canonical SMILES.
Spell(m)  finite spelling families of a molecule.
Rxn(A,k)  all reactions L>>R with L, R non-empty multisets of size <= k over alphabet A.
Universes depend on RDKit only and are cached under /verif/build.
"""

import csv
import itertools
import json
import os

from rdkit import Chem

from mc.boot import VERIF, ROOT

BUILD = os.path.join(VERIF, "build")


def _closed_shell(m):
    return all(a.GetNumRadicalElectrons() == 0 for a in m.GetAtoms())


def _sanitized(rw):
    m = rw.GetMol()
    try:
        Chem.SanitizeMol(m)
    except Exception:
        return None
    if not _closed_shell(m):
        return None
    return m


def _successors(m, elements, rings, max_heavy):
    n = m.GetNumAtoms()
    out = []
    if n < max_heavy:
        for i in range(n):
            for el in elements:
                for order in (
                    Chem.BondType.SINGLE,
                    Chem.BondType.DOUBLE,
                    Chem.BondType.TRIPLE,
                ):
                    rw = Chem.RWMol(m)
                    j = rw.AddAtom(Chem.Atom(el))
                    rw.AddBond(i, j, order)
                    s = _sanitized(rw)
                    if s is not None:
                        out.append(s)
    if rings:
        for i in range(n):
            for j in range(i + 1, n):
                if m.GetBondBetweenAtoms(i, j) is None:
                    for order in (Chem.BondType.SINGLE, Chem.BondType.DOUBLE):
                        rw = Chem.RWMol(m)
                        rw.AddBond(i, j, order)
                        s = _sanitized(rw)
                        if s is not None:
                            out.append(s)
    return out


def U(elements, n, rings=True):
    """Sorted (size, SMILES) list of canonical SMILES; simplest first."""
    elements = list(elements)
    name = "U_{}_{}_{}.json".format("".join(elements), n, "r" if rings else "a")
    path = os.path.join(BUILD, name)
    if os.path.exists(path):
        with open(path) as f:
            return json.load(f)
    seen = {}
    frontier = []
    for el in elements:
        m = Chem.MolFromSmiles("[{}]".format(el) if len(el) > 1 else el)
        rw = Chem.RWMol()
        rw.AddAtom(Chem.Atom(el))
        m = _sanitized(rw)
        if m is None:
            continue
        s = Chem.MolToSmiles(m)
        if s not in seen:
            seen[s] = m
            frontier.append(m)
    while frontier:
        nxt = []
        for m in frontier:
            # kekulised working copy so aromatic rings can still be extended
            k = Chem.Mol(m)
            Chem.Kekulize(k, clearAromaticFlags=True)
            for s_mol in _successors(k, elements, rings, n):
                s = Chem.MolToSmiles(s_mol)
                if s not in seen:
                    seen[s] = s_mol
                    nxt.append(s_mol)
        frontier = nxt
    out = sorted(seen, key=lambda s: (seen[s].GetNumAtoms(), len(s), s))
    os.makedirs(BUILD, exist_ok=True)
    tmp = path + ".{}.tmp".format(os.getpid())
    with open(tmp, "w") as f:
        json.dump(out, f)
    os.replace(tmp, path)
    return out


# ----------------------------------------------------------------------------- spellings


def rooted_spellings(smiles):
    """Non-canonical SMILES rooted at every atom (deduplicated, canonical first)."""
    m = Chem.MolFromSmiles(smiles)
    out = [smiles]
    for i in range(m.GetNumAtoms()):
        s = Chem.MolToSmiles(m, rootedAtAtom=i, canonical=False)
        if s not in out:
            out.append(s)
    return out


def permuted_mol(m, perm):
    """Molecule with atoms renumbered: new atom k is old atom perm[k]."""
    return Chem.RenumberAtoms(m, list(perm))


def permutation_spellings(smiles, max_all=4):
    """SMILES written in the atom order of every permutation (all n! for n <= max_all
    heavy atoms, otherwise the rooted family)."""
    m = Chem.MolFromSmiles(smiles)
    n = m.GetNumAtoms()
    if n > max_all:
        return rooted_spellings(smiles)
    out = [smiles]
    for perm in itertools.permutations(range(n)):
        pm = permuted_mol(m, perm)
        s = Chem.MolToSmiles(pm, canonical=False)
        if s not in out:
            out.append(s)
    return out


def kekule_spelling(smiles):
    m = Chem.MolFromSmiles(smiles)
    try:
        Chem.Kekulize(m, clearAromaticFlags=True)
    except Exception:
        return smiles
    return Chem.MolToSmiles(m, kekuleSmiles=True)


def explicit_h_spelling(smiles):
    """Every atom in brackets with its hydrogen count, e.g. CCO -> [CH3][CH2][OH]."""
    m = Chem.MolFromSmiles(smiles)
    return Chem.MolToSmiles(m, allHsExplicit=True)


def mapped_spellings(smiles):
    """Atom-mapped forms: 1..n, reversed, two-digit numbers."""
    out = []
    m = Chem.MolFromSmiles(smiles)
    n = m.GetNumAtoms()
    for numbering in (
        lambda i: i + 1,
        lambda i: n - i,
        lambda i: 10 + 7 * i,
    ):
        mm = Chem.Mol(m)
        for a in mm.GetAtoms():
            a.SetAtomMapNum(numbering(a.GetIdx()))
        out.append(Chem.MolToSmiles(mm))
    return out


def spell(smiles, maps=True):
    """The finite spelling family used for 'all equivalent spellings'."""
    out = []
    for s in (
        rooted_spellings(smiles)
        + [kekule_spelling(smiles), explicit_h_spelling(smiles)]
        + (mapped_spellings(smiles) if maps else [])
    ):
        if s not in out:
            out.append(s)
    return out


# ----------------------------------------------------------------------------- reactions


def multisets(alphabet, k):
    """All non-empty multisets of size <= k, simplest first."""
    for size in range(1, k + 1):
        for c in itertools.combinations_with_replacement(alphabet, size):
            yield c


def Rxn(alphabet, k, kr=None):
    """All reactions with both sides non-empty multisets (sizes <= k / kr)."""
    kr = k if kr is None else kr
    left = list(multisets(alphabet, k))
    right = list(multisets(alphabet, kr))
    out = []
    for l in left:
        for r in right:
            out.append(".".join(l) + ">>" + ".".join(r))
    return out


# ----------------------------------------------------------------------------- corpora


def corpus_rows(name="validation_set.csv", root=None):
    path = os.path.join(root or ROOT, "Data", "Validation_set", name)
    with open(path, newline="") as f:
        return list(csv.DictReader(f))


def corpus_molecules(root=None):
    """Distinct molecules (canonical, maps cleared) of every reaction string in the
    validation corpus; cached by the corpus file's size+mtime-independent content hash."""
    import hashlib

    path = os.path.join(root or ROOT, "Data", "Validation_set", "validation_set.csv")
    with open(path, "rb") as f:
        h = hashlib.sha256(f.read()).hexdigest()[:16]
    cache = os.path.join(BUILD, "corpus_mols_{}.json".format(h))
    if os.path.exists(cache):
        with open(cache) as f:
            return json.load(f)
    seen = set()
    for row in corpus_rows(root=root):
        for col in ("reaction", "expected_reaction"):
            v = row.get(col) or ""
            for side in v.split(">>"):
                if not side:
                    continue
                m = Chem.MolFromSmiles(side)
                if m is None:
                    continue
                for a in m.GetAtoms():
                    a.SetAtomMapNum(0)
                for frag in Chem.GetMolFrags(m, asMols=True):
                    seen.add(Chem.MolToSmiles(frag))
    out = sorted(seen, key=lambda s: (len(s), s))
    os.makedirs(BUILD, exist_ok=True)
    tmp = cache + ".{}.tmp".format(os.getpid())
    with open(tmp, "w") as f:
        json.dump(out, f)
    os.replace(tmp, cache)
    return out
