"""Evidence files, replay files, known-findings matching."""

import hashlib
import json
import os
import time

from mc.boot import VERIF

# scratch runs against other trees (SYNRBL_ROOT=...) redirect their output
EVIDENCE = os.environ.get("VERIF_EVIDENCE_DIR") or os.path.join(VERIF, "evidence")
REPLAYS = os.environ.get("VERIF_REPLAY_DIR") or os.path.join(VERIF, "replays")
KNOWN = os.path.join(VERIF, "known_findings.json")


def jsonable(x):
    if isinstance(x, dict):
        return {str(k): jsonable(v) for k, v in x.items()}
    if isinstance(x, (list, tuple, set, frozenset)):
        xs = list(x)
        if isinstance(x, (set, frozenset)):
            xs = sorted(xs, key=repr)
        return [jsonable(v) for v in xs]
    if isinstance(x, (str, int, bool)) or x is None:
        return x
    if isinstance(x, float):
        if x != x:
            return "NaN"
        return x
    try:
        import numpy as np

        if isinstance(x, np.generic):
            return jsonable(x.item())
    except Exception:
        pass
    return repr(x)


class Violation:
    """One failing case.  `key` is a root-cause signature (a JSON list) computed by the
    check; known findings are matched on (property, key)."""

    def __init__(self, sub, case, observed=None, expected=None, key=None, what=""):
        self.sub = sub
        self.case = jsonable(case)
        self.observed = jsonable(observed)
        self.expected = jsonable(expected)
        self.key = jsonable(key if key is not None else [sub])
        self.what = what
        self.priority = 1   # 0 = already failed again in a fresh state (tried first by the runner)

    def to_dict(self):
        return {
            "sub": self.sub,
            "case": self.case,
            "observed": self.observed,
            "expected": self.expected,
            "key": self.key,
            "what": self.what,
        }

    @staticmethod
    def from_dict(d):
        return Violation(
            d["sub"], d["case"], d.get("observed"), d.get("expected"), d.get("key"),
            d.get("what", ""),
        )


class Result:
    def __init__(self, level):
        self.level = level
        self.coverage = {}
        self.assumptions = []
        self.violations = []
        self.observations = []

    def add(self, v):
        self.violations.append(v)

    def extend(self, vs):
        for v in vs:
            if isinstance(v, dict):
                v = Violation.from_dict(v)
            self.violations.append(v)


def load_known():
    if not os.path.exists(KNOWN):
        return []
    with open(KNOWN) as f:
        return json.load(f).get("findings", [])


def key_matches(pattern, key):
    """A finding key matches a violation key when it is equal, or when it is a prefix
    ending in '*'."""
    pattern, key = jsonable(pattern), jsonable(key)
    if isinstance(pattern, list) and pattern and pattern[-1] == "*":
        return isinstance(key, list) and key[: len(pattern) - 1] == pattern[:-1]
    return pattern == key


def open_finding(prop, key, known):
    for f in known:
        if (
            f.get("property") == prop
            and f.get("status") == "open"
            and key_matches(f.get("key"), key)
        ):
            return f
    return None


def write_replay(prop, tier, v):
    body = {"property": prop, "tier": tier}
    body.update(v.to_dict())
    text = json.dumps(body, sort_keys=True, indent=1)
    sha = hashlib.sha256(
        json.dumps([prop, v.sub, v.case], sort_keys=True).encode()
    ).hexdigest()[:16]
    d = os.path.join(REPLAYS, prop)
    os.makedirs(d, exist_ok=True)
    path = os.path.join(d, sha + ".json")
    with open(path, "w") as f:
        f.write(text)
    return path


def write_evidence(prop, tier, seed, result, wall_s, n_violations, known_hits):
    cov = dict(result.coverage)
    cov.setdefault("exhaustive", True)
    if result.observations:
        cov["observations"] = jsonable(result.observations[:50])
    if known_hits:
        cov["known_findings_reproduced"] = jsonable(known_hits)
    body = {
        "property_id": prop,
        "tier": tier,
        "seed": int(seed),
        "level": result.level,
        "coverage": jsonable(cov),
        "assumptions": list(result.assumptions),
        "wall_s": round(wall_s, 2),
        "violations": int(n_violations),
        "written_at": time.strftime("%Y-%m-%dT%H:%M:%SZ", time.gmtime()),
    }
    os.makedirs(EVIDENCE, exist_ok=True)
    path = os.path.join(EVIDENCE, prop + ".json")
    tmp = path + ".tmp"
    with open(tmp, "w") as f:
        json.dump(body, f, indent=1, sort_keys=True)
    os.replace(tmp, path)
    return path
