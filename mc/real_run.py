#!/venv/bin/python
"""Conformance runs: the tree under test with its REAL joblib / thread pools (no seams).

usage: real_run.py <spec.json>   spec = {"root":..., "rxns": [...], "n_jobs": k, "batch_size": b, "threshold": t,
                                         "slow": {"site": "single_mcs"|"find_missing_parts_pairs", "calls": [i,...], "sleep": s}}
prints one JSON line {"rows": [...], "stats": {...}}.
"slow" injects a real sleep into the given calls of the worker function so that the real
2 s wait of the MCS stage really expires (deviation-1 fault patterns of C11)."""

import json
import math
import os
import sys


def main():
    spec = json.load(open(sys.argv[1]))
    root = spec["root"]
    sys.path.insert(0, root)
    import warnings

    warnings.filterwarnings("ignore")
    import logging

    logging.disable(logging.CRITICAL)
    from rdkit import RDLogger

    RDLogger.DisableLog("rdApp.*")
    import synrbl

    assert os.path.realpath(os.path.dirname(os.path.dirname(synrbl.__file__))) == os.path.realpath(root)
    slow = spec.get("slow")
    if slow:
        import time

        counter = {"n": 0}
        if slow["site"] == "single_mcs":
            import synrbl.SynMCSImputer.SubStructure.mcs_process as mp

            real = mp.single_mcs

            def single_mcs(*a, **k):
                i = counter["n"]
                counter["n"] += 1
                if i in slow["calls"]:
                    time.sleep(slow["sleep"])
                return real(*a, **k)

            mp.single_mcs = single_mcs
        else:
            from synrbl.SynMCSImputer.MissingGraph.find_missing_graphs import FindMissingGraphs

            real = FindMissingGraphs.find_missing_parts_pairs

            def fmp(*a, **k):
                i = counter["n"]
                counter["n"] += 1
                if i in slow["calls"]:
                    time.sleep(slow["sleep"])
                return real(*a, **k)

            FindMissingGraphs.find_missing_parts_pairs = staticmethod(fmp)
    from synrbl import Balancer

    b = Balancer(n_jobs=spec.get("n_jobs", 1), confidence_threshold=spec.get("threshold", 0))
    stats = {}
    devnull = open(os.devnull, "w")
    old = sys.stderr
    sys.stderr = devnull
    try:
        rows = b.rebalance(spec["rxns"], output_dict=True, stats=stats, batch_size=spec.get("batch_size"))
    finally:
        sys.stderr = old

    def norm(v):
        if isinstance(v, float) and math.isnan(v):
            return None
        if hasattr(v, "item"):
            v = v.item()
            if isinstance(v, float) and math.isnan(v):
                return None
        return v

    print(json.dumps({"rows": [{k: norm(v) for k, v in r.items()} for r in rows],
                      "stats": {k: norm(v) for k, v in stats.items()}}))


if __name__ == "__main__":
    main()
