"""Shared worker for every check that drives Balancer.rebalance.

run(spec) -> {"rows": [...], "stats": {...}, "raised": None | "Type: msg"}
spec = {"rxns": [str | dict, ...], "threshold": 0, "batch_size": None, "fresh": False,
        "cache_dir": None, "reaction_col": "reaction", "id_col": "id"}
"""

import io
import contextlib
import math

_BAL = {}
COLUMNS = ["input_reaction", "reaction", "solved", "solved_by", "confidence", "rules", "issue"]


def balancer(fresh=False, **kw):
    from synrbl import Balancer

    key = tuple(sorted(kw.items()))
    n_jobs = kw.pop("n_jobs", 1)   # what the code is told; the controlled joblib seam decides what workers share
    if fresh or key not in _BAL:
        b = Balancer(n_jobs=n_jobs, **kw)
        if fresh:
            return b
        _BAL[key] = b
    return _BAL[key]


def norm_value(v):
    if isinstance(v, float) and math.isnan(v):
        return None
    try:
        import numpy as np

        if isinstance(v, np.generic):
            v = v.item()
            if isinstance(v, float) and math.isnan(v):
                return None
    except Exception:
        pass
    if isinstance(v, tuple):
        return list(v)
    return v


def norm_row(row):
    return {k: norm_value(v) for k, v in row.items()}


_HIST = {}   # what every long-lived Balancer of this process has been asked to do so far (compact specs)
_SPEC_KEYS = ("rxns", "threshold", "batch_size", "reaction_col", "id_col", "n_jobs", "remove_aam")


def _kw(spec):
    kw = {}
    for k in ("reaction_col", "id_col"):
        if spec.get(k) is not None:
            kw[k] = spec[k]
    if spec.get("n_jobs") not in (None, 1):
        kw["n_jobs"] = spec["n_jobs"]
    if spec.get("cache_dir"):
        kw["cache"] = True
        kw["cache_dir"] = spec["cache_dir"]
    return kw


def prior(spec):
    """the specs that the long-lived Balancer which run(spec) would use has executed before (oldest first)"""
    return list(_HIST.get(tuple(sorted(_kw(spec).items())), []))


def run_history(history, spec):
    """one FRESH Balancer: the specs of `history` one after the other, then `spec`; returns the output of `spec`"""
    from synrbl import Balancer

    kw = _kw(spec)
    b = Balancer(n_jobs=kw.pop("n_jobs", 1), **kw)
    for h in history:
        _run_on(b, h)
    return _run_on(b, spec)


def run(spec):
    kw = _kw(spec)
    fresh = spec.get("fresh", False) or bool(spec.get("cache_dir"))
    b = balancer(fresh=fresh, **kw)
    if not fresh:
        _HIST.setdefault(tuple(sorted(kw.items())), []).append({k: spec[k] for k in _SPEC_KEYS if k in spec})
    return _run_on(b, spec)


def _run_on(b, spec):
    rxns = spec["rxns"]
    b.confidence_threshold = spec.get("threshold", 0)
    b.remove_aam = spec.get("remove_aam", True)
    stats = {}
    raised = None
    rows = None
    sink = io.StringIO()
    try:
        with contextlib.redirect_stderr(sink), contextlib.redirect_stdout(sink):
            rows = b.rebalance(
                [dict(r) if isinstance(r, dict) else r for r in rxns],
                output_dict=True,
                stats=stats,
                batch_size=spec.get("batch_size"),
            )
    except Exception as e:
        raised = "{}: {}".format(type(e).__name__, e)
    out = {
        "rows": [norm_row(r) for r in rows] if rows is not None else None,
        "stats": {k: norm_value(v) for k, v in stats.items()},
        "raised": raised,
    }
    if "Traceback" in sink.getvalue():
        out["swallowed"] = sink.getvalue().strip().splitlines()[-1][:300]
    return out


def run_many(specs):
    return [run(s) for s in specs]
