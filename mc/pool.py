"""Long-lived worker pool (spawn context).  Each worker boots the tree under test once.

`pmap(func, items)` applies a top-level function `module:function` to every item of a
list and returns the results in item order.  Work is chunked; VERIF_SEED only rotates
the order in which chunks are handed out (results never depend on it).
"""

import importlib
import multiprocessing as mp
import os
import sys
import time
import traceback

from mc.boot import HarnessError, VERIF

_POOL = None
_NPROC = None


def _init(controlled):
    # joblib answers effective_n_jobs() == 1 inside a daemonic process ("no nested
    # parallelism"); code under test that branches on the worker count must see what it
    # would see in a user's main process
    try:
        mp.current_process()._config["daemon"] = False
    except Exception:
        pass
    if VERIF not in sys.path:
        sys.path.insert(0, VERIF)
    from mc import boot

    boot.boot(controlled=controlled)


def _call(job):
    spec, idx, chunk = job
    modname, fname = spec.split(":")
    try:
        func = getattr(importlib.import_module(modname), fname)
        return idx, [func(item) for item in chunk], None
    except (Exception, HarnessError):
        return idx, None, traceback.format_exc()


def nproc():
    n = os.environ.get("VERIF_NPROC")
    if n:
        return max(1, int(n))
    try:
        return max(1, len(os.sched_getaffinity(0)))
    except Exception:
        return max(1, os.cpu_count() or 1)


def get_pool(controlled=True):
    global _POOL, _NPROC
    if _POOL is None:
        _NPROC = nproc()
        ctx = mp.get_context("spawn")
        _POOL = ctx.Pool(_NPROC, initializer=_init, initargs=(controlled,))
    return _POOL


def close_pool():
    global _POOL
    if _POOL is not None:
        _POOL.terminate()
        _POOL.join()
        _POOL = None


def pmap(spec, items, chunk=None, seed=0, timeout=3600, progress=None):
    """Apply `spec` ("module:function") to all items; results in item order."""
    items = list(items)
    if not items:
        return []
    n = nproc()
    if chunk is None:
        chunk = max(1, min(256, len(items) // (n * 8) or 1))
    jobs = []
    for ci, start in enumerate(range(0, len(items), chunk)):
        jobs.append((spec, ci, items[start : start + chunk]))
    if jobs:
        r = seed % len(jobs)
        jobs = jobs[r:] + jobs[:r]
    if n == 1 or len(items) == 1:
        _init_local()
        done = [_call(j) for j in jobs]
    else:
        pool = get_pool()
        it = pool.imap_unordered(_call, jobs)
        done = []
        deadline = time.time() + timeout
        for _ in range(len(jobs)):
            try:
                done.append(it.next(timeout=max(1.0, deadline - time.time())))
            except mp.TimeoutError:
                close_pool()
                raise HarnessError(
                    "worker pool exceeded its watchdog of {} s in {}".format(
                        timeout, spec
                    )
                )
            if progress:
                progress(len(done), len(jobs))
    out = {}
    for idx, res, err in done:
        if err is not None:
            close_pool()
            raise HarnessError("worker failed in {}:\n{}".format(spec, err))
        out[idx] = res
    flat = []
    for ci in range(len(jobs)):
        flat.extend(out[ci])
    return flat


class time_limit:
    """with time_limit(20): ...   raises TimeoutError in the code under test when it runs longer
    (a hang becomes an observable outcome instead of blocking the worker until the watchdog)"""

    def __init__(self, seconds):
        self.seconds = seconds

    def __enter__(self):
        import signal

        def handler(signum, frame):
            raise TimeoutError("no result within {} s".format(self.seconds))

        self._old = signal.signal(signal.SIGALRM, handler)
        signal.setitimer(signal.ITIMER_REAL, self.seconds)
        return self

    def __exit__(self, *a):
        import signal

        signal.setitimer(signal.ITIMER_REAL, 0)
        signal.signal(signal.SIGALRM, self._old)
        return False


_LOCAL = False


def _init_local():
    global _LOCAL
    if not _LOCAL:
        _init(True)
        _LOCAL = True
