"""E3 — stateless, deviation-bounded exploration over the choice points the harness owns.

An execution is identified by its sparse deviation set {point index: (label, alt)}; every
other choice point takes alternative 0 (the default environment answer).  `subtree`
explores, depth first, every execution that extends a given deviation set by deviations
at *later* points whose accumulated cost stays within the bound (each execution is
produced exactly once).  The caller distributes the first level over worker processes.
"""

from mc import seams
from mc.boot import HarnessError


def default_cost(cls, label, alt):
    return 1


def execute(run_fn, deviations, active, **ctl_kw):
    """-> (observation, points) for one execution; run_fn() is called under the controller"""
    ctl = seams.Controller(deviations=deviations, active=active, **ctl_kw)
    with seams.controlled(ctl):
        obs = run_fn()
    return obs, ctl


def used_cost(deviations, cost):
    return sum(cost(None, lab, alt) for lab, alt in deviations.values())


def children(ctl, deviations, bound, cost, classes=None, label_filter=None):
    """all one-step extensions of `deviations` at points after the last deviation"""
    last = max(deviations) if deviations else -1
    used = sum(cost(ctl.points[i].cls, lab, alt) for i, (lab, alt) in deviations.items())
    out = []
    for p in ctl.points:
        if p.index <= last:
            continue
        if classes is not None and p.cls not in classes:
            continue
        if label_filter is not None and not label_filter(p.cls, p.label):
            continue
        for alt in range(1, p.n):
            c = cost(p.cls, p.label, alt)
            if used + c <= bound:
                d = dict(deviations)
                d[p.index] = (p.label, alt)
                out.append(d)
    return out


def subtree(run_fn, root, active, bound, cost=default_cost, on_exec=None, max_exec=None,
            label_filter=None, split=None, **ctl_kw):
    """Explore every execution extending `root` (root itself included).
    on_exec(deviations, observation, controller) is called for every execution.
    Returns (#executions, cap_hit)."""
    stack = [dict(root)]
    n = 0
    first = True
    while stack:
        dev = stack.pop()
        obs, ctl = execute(run_fn, dev, active, **ctl_kw)
        kids = children(ctl, dev, bound, cost, label_filter=label_filter)
        if first and split is not None:
            # work splitting: sub-job k of m takes every m-th child of the root; the root
            # execution itself is reported by sub-job 0 only
            k, m = split
            kids = kids[k::m]
            first = False
            if k != 0:
                stack.extend(reversed(kids))
                continue
        first = False
        n += 1
        if on_exec:
            on_exec(dev, obs, ctl)
        if max_exec is not None and n >= max_exec:
            return n, bool(stack)
        stack.extend(reversed(kids))
    return n, False


def check_replay(run_fn, deviations, active, canon=repr, **ctl_kw):
    """Replaying one schedule twice must give identical observations and points."""
    a, c1 = execute(run_fn, deviations, active, **ctl_kw)
    b, c2 = execute(run_fn, deviations, active, **ctl_kw)
    if canon(a) != canon(b) or [p.as_list() for p in c1.points] != [p.as_list() for p in c2.points]:
        raise HarnessError("schedule {} does not replay identically".format(deviations))
    return a, c1


def dev_to_json(dev):
    return [[int(i), lab, int(alt)] for i, (lab, alt) in sorted(dev.items())]


def dev_from_json(lst):
    return {int(i): (lab, int(alt)) for i, lab, alt in lst}
