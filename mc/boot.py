"""Process bootstrap: environment, import path of the tree under test, seams.

Every process of the harness (runner and pool workers) goes through `boot()` exactly
once before `synrbl` is imported.
"""

import os
import sys

VERIF = os.path.dirname(os.path.dirname(os.path.abspath(__file__)))
ROOT = os.path.abspath(os.environ.get("SYNRBL_ROOT", "/repo"))
GUARD = "SYNRBL_VERIF"


class HarnessError(BaseException):
    """The harness itself is broken (missing seam, replay divergence, hang).

    Never reported as a VIOLATION: the runner exits with status 2.
    """


def ensure_env():
    """Re-exec the interpreter when the hash seed is not pinned."""
    want = {
        "PYTHONHASHSEED": "0",
        "OMP_NUM_THREADS": "1",
        "OPENBLAS_NUM_THREADS": "1",
        "MKL_NUM_THREADS": "1",
        GUARD: "1",
        "PYTHONDONTWRITEBYTECODE": "1",
    }
    missing = {k: v for k, v in want.items() if os.environ.get(k) != v}
    if missing:
        os.environ.update(missing)
        if "PYTHONHASHSEED" in missing:
            os.execve(sys.executable, [sys.executable] + sys.argv, os.environ)


_BOOTED = False


def boot(controlled=True):
    """Put the tree under test first on sys.path, install the seams, import synrbl."""
    global _BOOTED
    if _BOOTED:
        return
    if VERIF not in sys.path:
        sys.path.insert(0, VERIF)
    if ROOT in sys.path:
        sys.path.remove(ROOT)
    sys.path.insert(0, ROOT)
    import warnings

    warnings.filterwarnings("ignore")
    import logging

    logging.disable(logging.CRITICAL)
    from rdkit import RDLogger

    RDLogger.DisableLog("rdApp.*")
    from mc import seams

    seams.install(controlled=controlled)
    import synrbl

    got = os.path.dirname(os.path.dirname(os.path.abspath(synrbl.__file__)))
    if os.path.realpath(got) != os.path.realpath(ROOT):
        raise HarnessError(
            "synrbl imported from {} instead of {}".format(got, ROOT)
        )
    _BOOTED = True
