"""Reference models ("kept boring").  Only RDKit is trusted here; nothing is imported
from the tree under test."""

from collections import Counter

from rdkit import Chem

_PT = Chem.GetPeriodicTable()


def parse(smiles):
    if not isinstance(smiles, str):
        return None
    try:
        return Chem.MolFromSmiles(smiles)
    except Exception:
        return None


def closed_shell(smiles):
    """Domain predicate: RDKit parses the SMILES and no atom has a radical electron."""
    m = parse(smiles)
    if m is None:
        return False
    return all(a.GetNumRadicalElectrons() == 0 for a in m.GetAtoms())


def comp_mol(m):
    c = Counter()
    q = 0
    for a in m.GetAtoms():
        z = a.GetAtomicNum()
        c[_PT.GetElementSymbol(z) if z > 0 else "*"] += 1
        h = a.GetTotalNumHs()
        if h:
            c["H"] += h
        q += a.GetFormalCharge()
    if q:
        c["Q"] = q
    return dict(c)


def comp(smiles):
    """Independent composition of a SMILES (mixture): {symbol: n}, 'Q' only when != 0.
    None when the SMILES does not parse."""
    m = parse(smiles)
    if m is None:
        return None
    return comp_mol(m)


def comp_add(a, b):
    c = Counter(a)
    for k, v in b.items():
        c[k] += v
    return {k: v for k, v in c.items() if v != 0}


def canon(smiles, stereo=True):
    """Canonical SMILES with atom maps cleared; None if unparsable."""
    m = parse(smiles)
    if m is None:
        return None
    return canon_mol(m, stereo)


def canon_mol(m, stereo=True):
    m = Chem.Mol(m)
    for a in m.GetAtoms():
        a.SetAtomMapNum(0)
    return Chem.MolToSmiles(m, isomericSmiles=stereo)


def mols(side, stereo=True):
    """Multiset (Counter) of canonical molecules of a dot-separated side.  Components are
    taken from the parsed molecule's fragments, so ionic pairs written with '.' count as
    separate molecules whichever way they are ordered.  None if unparsable."""
    if side == "":
        return Counter()
    m = parse(side)
    if m is None:
        return None
    out = Counter()
    for frag in Chem.GetMolFrags(m, asMols=True):
        out[canon_mol(frag, stereo)] += 1
    return out


def split_reaction(rsmi):
    if not isinstance(rsmi, str):
        return None
    t = rsmi.split(">>")
    if len(t) != 2:
        return None
    return t[0], t[1]


def balanced(rsmi):
    """True/False by the independent composition; None when the reaction does not
    parse."""
    t = split_reaction(rsmi)
    if t is None:
        return None
    a, b = comp(t[0]), comp(t[1])
    if a is None or b is None:
        return None
    return a == b


def n_carbon(side):
    m = parse(side)
    if m is None:
        return None
    return sum(1 for a in m.GetAtoms() if a.GetAtomicNum() == 6)


def has_atom_map(smiles):
    import re

    return re.search(r"\[[^\]]*:\d+\]", smiles) is not None


def multiset_leq(a, b):
    return all(b.get(k, 0) >= v for k, v in a.items())
